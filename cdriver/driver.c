/* C client of libredirectionio following the call protocol of the nginx / apache modules.
 * Compiled with clang -fsanitize=address,undefined and linked against libredirectionio.a built from
 * /repo: exercises the *real C ABI* (Buffer by value, HeaderMap linked list released with free()).
 * usage: cdriver <seed> <iterations>      exit 0 = clean, 1 = value mismatch (sanitizers abort themselves)
 */
#include <stdint.h>
#include <stdio.h>
#include <stdlib.h>
#include <string.h>
#include <stdbool.h>

struct REDIRECTIONIO_HeaderMap { const char *name; const char *value; struct REDIRECTIONIO_HeaderMap *next; };
struct REDIRECTIONIO_Buffer { char *data; uintptr_t len; };
struct REDIRECTIONIO_Action; struct REDIRECTIONIO_Request; struct REDIRECTIONIO_FilterBodyAction;

void redirectionio_api_buffer_drop(struct REDIRECTIONIO_Buffer buffer);
const struct REDIRECTIONIO_Action *redirectionio_action_json_deserialize(char *str);
const char *redirectionio_action_json_serialize(struct REDIRECTIONIO_Action *action);
void redirectionio_action_drop(struct REDIRECTIONIO_Action *action);
uint16_t redirectionio_action_get_status_code(struct REDIRECTIONIO_Action *action, uint16_t code);
const struct REDIRECTIONIO_HeaderMap *redirectionio_action_header_filter_filter(struct REDIRECTIONIO_Action *action, const struct REDIRECTIONIO_HeaderMap *map, uint16_t code, bool add_rule_ids);
const struct REDIRECTIONIO_FilterBodyAction *redirectionio_action_body_filter_create(struct REDIRECTIONIO_Action *action, uint16_t code, const struct REDIRECTIONIO_HeaderMap *map);
struct REDIRECTIONIO_Buffer redirectionio_action_body_filter_filter(struct REDIRECTIONIO_FilterBodyAction *filter, struct REDIRECTIONIO_Buffer buffer);
struct REDIRECTIONIO_Buffer redirectionio_action_body_filter_close(struct REDIRECTIONIO_FilterBodyAction *filter);
void redirectionio_action_body_filter_drop(struct REDIRECTIONIO_FilterBodyAction *filter);
bool redirectionio_action_should_log_request(struct REDIRECTIONIO_Action *action, bool allow, uint16_t code);
const struct REDIRECTIONIO_Request *redirectionio_request_create(const char *uri, const char *host, const char *scheme, const char *method, const struct REDIRECTIONIO_HeaderMap *map);
const char *redirectionio_request_json_serialize(const struct REDIRECTIONIO_Request *request);
void redirectionio_request_set_remote_addr(struct REDIRECTIONIO_Request *request, const char *addr, const void *proxies);
void redirectionio_request_drop(struct REDIRECTIONIO_Request *request);
const char *redirectionio_api_create_log_in_json(struct REDIRECTIONIO_Request *request, uint16_t code, const struct REDIRECTIONIO_HeaderMap *headers, struct REDIRECTIONIO_Action *action, const char *proxy, uint64_t time, const char *client_ip);
const char *redirectionio_api_get_rule_api_version(void);

static uint64_t rng_state;
static uint64_t rnd(void) { rng_state += 0x9E3779B97F4A7C15ULL; uint64_t z = rng_state; z = (z ^ (z >> 30)) * 0xBF58476D1CE4E5B9ULL; z = (z ^ (z >> 27)) * 0x94D049BB133111EBULL; return z ^ (z >> 31); }
static unsigned long calls = 0;
static int mismatches = 0;
#define CHECK(cond, what) do { calls++; if (!(cond)) { mismatches++; fprintf(stderr, "MISMATCH: %s (iteration %d)\n", what, iteration); } } while (0)

static struct REDIRECTIONIO_HeaderMap *push_header(struct REDIRECTIONIO_HeaderMap *head, const char *name, const char *value) {
    struct REDIRECTIONIO_HeaderMap *node = malloc(sizeof(*node));
    node->name = strdup(name); node->value = strdup(value); node->next = head;
    return node;
}
/* the modules release library-built lists node by node with free() */
static int free_headers(struct REDIRECTIONIO_HeaderMap *head, const char *must_contain) {
    int n = 0, found = must_contain == NULL;
    while (head != NULL) {
        struct REDIRECTIONIO_HeaderMap *next = head->next;
        if (must_contain != NULL && head->name != NULL && strcmp(head->name, must_contain) == 0) found = 1;
        free((void *)head->name); free((void *)head->value); free(head);
        head = next; n++;
    }
    return found ? n : -1;
}

static const char *ACTION_JSON =
    "{\"status_code_update\":{\"status_code\":301,\"on_response_status_codes\":[],\"exclude_response_status_codes\":false,\"fallback_status_code\":0,\"rule_id\":\"r1\",\"fallback_rule_id\":null,\"unit_id\":null,\"target_hash\":\"status_code\"},"
    "\"header_filters\":[{\"filter\":{\"action\":\"override\",\"header\":\"Location\",\"value\":\"/bar\",\"id\":null,\"target_hash\":null},\"on_response_status_codes\":[],\"exclude_response_status_codes\":false,\"rule_id\":\"r1\"},"
    "{\"filter\":{\"action\":\"add\",\"header\":\"X-Added\",\"value\":\"yes\",\"id\":null,\"target_hash\":null},\"on_response_status_codes\":[],\"exclude_response_status_codes\":false,\"rule_id\":\"r1\"}],"
    "\"body_filters\":[{\"filter\":{\"action\":\"append_child\",\"value\":\"<p>INSERTED</p>\",\"inner_value\":null,\"element_tree\":[\"html\",\"body\"],\"css_selector\":null,\"id\":null,\"target_hash\":null},\"on_response_status_codes\":[],\"exclude_response_status_codes\":false,\"rule_id\":\"r1\"},"
    "{\"filter\":{\"action\":\"append_text\",\"content\":\"<!-- END -->\",\"id\":null,\"target_hash\":null},\"on_response_status_codes\":[],\"exclude_response_status_codes\":false,\"rule_id\":\"r1\"}],"
    "\"rule_ids\":[\"r1\"],\"rule_traces\":[{\"id\":\"r1\",\"on_response_status_codes\":[],\"exclude_response_status_codes\":false}],\"rules_applied\":[],\"log_override\":null}";

int main(int argc, char **argv) {
    rng_state = argc > 1 ? strtoull(argv[1], NULL, 10) : 1;
    int iterations = argc > 2 ? atoi(argv[2]) : 100;
    for (int iteration = 0; iteration < iterations; iteration++) {
        struct REDIRECTIONIO_HeaderMap *req_headers = push_header(push_header(NULL, "User-Agent", "cdriver"), "X-Forwarded-For", "203.0.113.9");
        struct REDIRECTIONIO_Request *request = (struct REDIRECTIONIO_Request *)redirectionio_request_create("/foo?a=1", "example.org", "https", rnd() % 2 ? "GET" : "POST", req_headers);
        CHECK(request != NULL, "request_create");
        free_headers(req_headers, NULL); /* request_create only reads the list */
        redirectionio_request_set_remote_addr(request, "10.0.0.1:1234", NULL);
        const char *rs = redirectionio_request_json_serialize(request);
        CHECK(rs != NULL && strstr(rs, "\"/foo?a=1\"") != NULL, "request serialisation");
        free((void *)rs);

        char *json = strdup(ACTION_JSON);
        struct REDIRECTIONIO_Action *action = (struct REDIRECTIONIO_Action *)redirectionio_action_json_deserialize(json);
        free(json);
        CHECK(action != NULL, "action_json_deserialize");
        CHECK(redirectionio_action_get_status_code(action, 0) == 301, "status code");
        const char *as = redirectionio_action_json_serialize(action);
        CHECK(as != NULL && strstr(as, "\"status_code\":301") != NULL, "action serialisation");
        free((void *)as);

        struct REDIRECTIONIO_HeaderMap *resp = push_header(push_header(NULL, "Content-Type", "text/html"), "Location", "/old");
        struct REDIRECTIONIO_HeaderMap *filtered = (struct REDIRECTIONIO_HeaderMap *)redirectionio_action_header_filter_filter(action, resp, 301, rnd() % 2);
        CHECK(filtered != resp, "header_filter_filter returns a fresh list");
        int n = free_headers(filtered, "X-Added");
        CHECK(n >= 3, "filtered header list content");

        struct REDIRECTIONIO_FilterBodyAction *filter = (struct REDIRECTIONIO_FilterBodyAction *)redirectionio_action_body_filter_create(action, 301, resp);
        CHECK(filter != NULL, "body_filter_create");
        free_headers(resp, NULL);
        const char *body = "<html><head></head><body><div>content</div></body></html>";
        size_t total = strlen(body), cut = 1 + rnd() % (total - 1), produced = 0;
        int seen_inserted = 0, seen_end = 0;
        char *acc = calloc(1, total + 256);
        for (int part = 0; part < 3; part++) {
            struct REDIRECTIONIO_Buffer out;
            if (part < 2) {
                size_t from = part == 0 ? 0 : cut, len = part == 0 ? cut : total - cut;
                struct REDIRECTIONIO_Buffer in = { malloc(len), len };
                memcpy(in.data, body + from, len);
                out = redirectionio_action_body_filter_filter(filter, in); /* consumes `in` */
            } else if (rnd() % 6 == 0) {
                redirectionio_action_body_filter_drop(filter);
                break;
            } else {
                out = redirectionio_action_body_filter_close(filter);
                seen_end = 1;
            }
            if (out.len > 0 && out.data != NULL) { memcpy(acc + produced, out.data, out.len); produced += out.len; }
            redirectionio_api_buffer_drop(out);
        }
        seen_inserted = strstr(acc, "<p>INSERTED</p></body>") != NULL;
        if (seen_end) {
            CHECK(seen_inserted, "body filter inserted the value before </body>");
            CHECK(strstr(acc, "<!-- END -->") != NULL, "text appended at end of stream");
            CHECK(produced == total + strlen("<p>INSERTED</p>") + strlen("<!-- END -->"), "output length");
        }
        free(acc);

        /* NULL filter: the buffer comes back */
        struct REDIRECTIONIO_Buffer in = { malloc(5), 5 };
        memcpy(in.data, "hello", 5);
        struct REDIRECTIONIO_Buffer same = redirectionio_action_body_filter_filter(NULL, in);
        CHECK(same.len == 5 && memcmp(same.data, "hello", 5) == 0, "body_filter_filter(NULL)");
        redirectionio_api_buffer_drop(same);

        CHECK(redirectionio_action_should_log_request(action, true, 301), "should_log_request");
        struct REDIRECTIONIO_HeaderMap *log_headers = push_header(NULL, "Location", "/bar");
        const char *log = redirectionio_api_create_log_in_json(request, 301, log_headers, action, "cdriver/1", 1700000000000ULL, "192.168.0.1");
        CHECK(log != NULL && strstr(log, "\"code\":301") != NULL, "log line");
        free((void *)log);
        free_headers(log_headers, NULL);
        const char *version = redirectionio_api_get_rule_api_version();
        CHECK(version != NULL && strcmp(version, "2.0.0") == 0, "api version");
        free((void *)version);

        redirectionio_action_drop(action);
        redirectionio_request_drop(request);
    }
    printf("calls=%lu mismatches=%d\n", calls, mismatches);
    return mismatches ? 1 : 0;
}
