//! FFI call-sequence driver for the C surface of libredirectionio (properties C18 and C07-FFI).
//!
//! It follows the ownership protocol of the nginx / apache modules: create* ; use* ; drop, releasing
//! every object, buffer, header node and string exactly once through the matching function, and
//! compares every result with the native Rust API (value oracle). The same binary runs under
//!   * the audit allocator (feature `audit`): every dealloc/realloc layout is compared with the
//!     allocation's, unknown frees are reported, and leaks are decided by repetition (a scenario
//!     repeated four times must not keep growing the live set);
//!   * Miri, AddressSanitizer/LeakSanitizer and valgrind (feature off: plain System allocator).
//!
//! usage: ffi-driver --seed N --scenarios K [--family lifecycle|nulls|immortal|all] [--only I]
//!                   [--max-payload BYTES] [--shard i/n]
//! Every scenario is bracketed by `BEGIN <i> <kind>` / `END <i>` on stderr so that a crash (abort on a
//! panic crossing extern "C") can be attributed by the caller. A JSON summary is printed on stdout.
//! exit: 0 clean, 1 value/memory violation found, 3 harness error.

#![allow(clippy::missing_safety_doc)]

use redirectionio::action::Action;
use redirectionio::filter::{Buffer, FilterBodyAction};
use redirectionio::http::{Header, Request};
use std::ffi::{c_void, CStr, CString};
use std::os::raw::{c_char, c_short, c_ushort};
use std::ptr::{null, null_mut};

#[repr(C)]
pub struct HeaderMap {
    name: *const c_char,
    value: *const c_char,
    next: *mut HeaderMap,
}

#[repr(C)]
pub struct TrustedProxies(*mut ());

/// layout-identical view of `redirectionio::filter::Buffer` (its fields are private)
#[repr(C)]
#[derive(Clone, Copy)]
struct RawBuffer {
    data: *mut u8,
    len: usize,
}

extern "C" {
    fn redirectionio_api_buffer_drop(buffer: Buffer);
    fn redirectionio_action_json_deserialize(s: *mut c_char) -> *const Action;
    fn redirectionio_action_json_serialize(a: *mut Action) -> *const c_char;
    fn redirectionio_action_drop(a: *mut Action);
    fn redirectionio_action_get_status_code(a: *mut Action, code: u16) -> u16;
    fn redirectionio_action_header_filter_filter(a: *mut Action, h: *const HeaderMap, code: u16, add_rule_ids: bool) -> *const HeaderMap;
    fn redirectionio_action_body_filter_create(a: *mut Action, code: u16, h: *const HeaderMap) -> *const FilterBodyAction;
    fn redirectionio_action_body_filter_filter(f: *mut FilterBodyAction, b: Buffer) -> Buffer;
    fn redirectionio_action_body_filter_close(f: *mut FilterBodyAction) -> Buffer;
    fn redirectionio_action_body_filter_drop(f: *mut FilterBodyAction);
    fn redirectionio_action_should_log_request(a: *mut Action, allow: bool, code: u16) -> bool;
    fn redirectionio_request_json_deserialize(s: *mut c_char) -> *const Request;
    fn redirectionio_request_json_serialize(r: *const Request) -> *const c_char;
    fn redirectionio_request_create(uri: *const c_char, host: *const c_char, scheme: *const c_char, method: *const c_char, h: *const HeaderMap) -> *const Request;
    fn redirectionio_request_from_str(url: *const c_char) -> *const Request;
    fn redirectionio_request_drop(r: *mut Request);
    fn redirectionio_request_set_remote_addr(r: *mut Request, addr: *const c_char, proxies: *const TrustedProxies);
    fn redirectionio_trusted_proxies_create(s: *const c_char) -> *const TrustedProxies;
    fn redirectionio_trusted_proxies_add_proxy(p: *mut TrustedProxies, s: *const c_char);
    fn redirectionio_api_get_rule_api_version() -> *const c_char;
    fn redirectionio_api_create_log_in_json(r: *mut Request, code: c_ushort, h: *const HeaderMap, a: *mut Action, proxy: *const c_char, time: u64, ip: *const c_char) -> *const c_char;
    fn redirectionio_log_init_with_callback(cb: extern "C" fn(*const c_char, *const c_void, c_short), data: &'static c_void);
}

// ---------------------------------------------------------------------------------------------
// audit allocator

#[cfg(feature = "audit")]
mod audit {
    use std::alloc::{GlobalAlloc, Layout, System};
    use std::sync::atomic::{AtomicBool, AtomicI64, AtomicU64, AtomicUsize, Ordering};

    const SLOTS: usize = 1 << 21;
    // open addressing table: ptr -> (size, align); 0 = empty, 1 = tombstone
    static PTRS: [AtomicUsize; SLOTS] = [const { AtomicUsize::new(0) }; SLOTS];
    static SIZES: [AtomicUsize; SLOTS] = [const { AtomicUsize::new(0) }; SLOTS];
    static ALIGNS: [AtomicUsize; SLOTS] = [const { AtomicUsize::new(0) }; SLOTS];
    static LOCK: AtomicBool = AtomicBool::new(false);

    pub static LIVE: AtomicI64 = AtomicI64::new(0);
    pub static LIVE_BYTES: AtomicI64 = AtomicI64::new(0);
    pub static ALLOCS: AtomicU64 = AtomicU64::new(0);
    pub static LAYOUT_MISMATCHES: AtomicU64 = AtomicU64::new(0);
    pub static UNKNOWN_FREES: AtomicU64 = AtomicU64::new(0);
    pub static TABLE_FULL: AtomicU64 = AtomicU64::new(0);
    // first mismatch detail
    pub static FIRST_MISMATCH_ALLOC_SIZE: AtomicUsize = AtomicUsize::new(0);
    pub static FIRST_MISMATCH_FREE_SIZE: AtomicUsize = AtomicUsize::new(0);

    pub struct Audit;

    fn lock() {
        while LOCK.compare_exchange_weak(false, true, Ordering::Acquire, Ordering::Relaxed).is_err() {
            std::hint::spin_loop();
        }
    }
    fn unlock() {
        LOCK.store(false, Ordering::Release);
    }
    fn slot_of(p: usize) -> usize {
        (p >> 4).wrapping_mul(0x9E3779B97F4A7C15) >> (64 - 21)
    }

    fn insert(p: usize, size: usize, align: usize) {
        lock();
        let mut i = slot_of(p);
        for _ in 0..SLOTS {
            let cur = PTRS[i].load(Ordering::Relaxed);
            if cur == 0 || cur == 1 {
                PTRS[i].store(p, Ordering::Relaxed);
                SIZES[i].store(size, Ordering::Relaxed);
                ALIGNS[i].store(align, Ordering::Relaxed);
                unlock();
                return;
            }
            i = (i + 1) & (SLOTS - 1);
        }
        TABLE_FULL.fetch_add(1, Ordering::Relaxed);
        unlock();
    }

    fn remove(p: usize) -> Option<(usize, usize)> {
        lock();
        let mut i = slot_of(p);
        for _ in 0..SLOTS {
            let cur = PTRS[i].load(Ordering::Relaxed);
            if cur == 0 {
                break;
            }
            if cur == p {
                let r = (SIZES[i].load(Ordering::Relaxed), ALIGNS[i].load(Ordering::Relaxed));
                PTRS[i].store(1, Ordering::Relaxed);
                unlock();
                return Some(r);
            }
            i = (i + 1) & (SLOTS - 1);
        }
        unlock();
        None
    }

    fn check_release(p: *mut u8, layout: Layout) {
        match remove(p as usize) {
            None => {
                UNKNOWN_FREES.fetch_add(1, Ordering::Relaxed);
            }
            Some((size, align)) => {
                LIVE.fetch_sub(1, Ordering::Relaxed);
                LIVE_BYTES.fetch_sub(size as i64, Ordering::Relaxed);
                if size != layout.size() || align != layout.align() {
                    if LAYOUT_MISMATCHES.fetch_add(1, Ordering::Relaxed) == 0 {
                        FIRST_MISMATCH_ALLOC_SIZE.store(size, Ordering::Relaxed);
                        FIRST_MISMATCH_FREE_SIZE.store(layout.size(), Ordering::Relaxed);
                    }
                }
            }
        }
    }

    unsafe impl GlobalAlloc for Audit {
        unsafe fn alloc(&self, layout: Layout) -> *mut u8 {
            let p = System.alloc(layout);
            if !p.is_null() {
                ALLOCS.fetch_add(1, Ordering::Relaxed);
                LIVE.fetch_add(1, Ordering::Relaxed);
                LIVE_BYTES.fetch_add(layout.size() as i64, Ordering::Relaxed);
                insert(p as usize, layout.size(), layout.align());
            }
            p
        }
        unsafe fn dealloc(&self, p: *mut u8, layout: Layout) {
            check_release(p, layout);
            // release with the layout of the allocation would need the table; the system allocator ignores it
            System.dealloc(p, layout);
        }
        unsafe fn alloc_zeroed(&self, layout: Layout) -> *mut u8 {
            let p = System.alloc_zeroed(layout);
            if !p.is_null() {
                ALLOCS.fetch_add(1, Ordering::Relaxed);
                LIVE.fetch_add(1, Ordering::Relaxed);
                LIVE_BYTES.fetch_add(layout.size() as i64, Ordering::Relaxed);
                insert(p as usize, layout.size(), layout.align());
            }
            p
        }
        unsafe fn realloc(&self, p: *mut u8, layout: Layout, new_size: usize) -> *mut u8 {
            check_release(p, layout);
            let q = System.realloc(p, layout, new_size);
            if !q.is_null() {
                LIVE.fetch_add(1, Ordering::Relaxed);
                LIVE_BYTES.fetch_add(new_size as i64, Ordering::Relaxed);
                insert(q as usize, new_size, layout.align());
            } else {
                // the old block is still live
                LIVE.fetch_add(1, Ordering::Relaxed);
                LIVE_BYTES.fetch_add(layout.size() as i64, Ordering::Relaxed);
                insert(p as usize, layout.size(), layout.align());
            }
            q
        }
    }
}

#[cfg(feature = "audit")]
#[global_allocator]
static GLOBAL: audit::Audit = audit::Audit;

#[derive(Clone, Copy, Default)]
struct AuditSnapshot {
    live: i64,
    mismatches: u64,
    unknown: u64,
}

fn audit_snapshot() -> AuditSnapshot {
    #[cfg(feature = "audit")]
    {
        use std::sync::atomic::Ordering::Relaxed;
        AuditSnapshot {
            live: audit::LIVE.load(Relaxed),
            mismatches: audit::LAYOUT_MISMATCHES.load(Relaxed),
            unknown: audit::UNKNOWN_FREES.load(Relaxed),
        }
    }
    #[cfg(not(feature = "audit"))]
    {
        AuditSnapshot::default()
    }
}

// ---------------------------------------------------------------------------------------------
// prng

struct Rng(u64);
impl Rng {
    fn next(&mut self) -> u64 {
        self.0 = self.0.wrapping_add(0x9E3779B97F4A7C15);
        let mut z = self.0;
        z = (z ^ (z >> 30)).wrapping_mul(0xBF58476D1CE4E5B9);
        z = (z ^ (z >> 27)).wrapping_mul(0x94D049BB133111EB);
        z ^ (z >> 31)
    }
    fn below(&mut self, n: usize) -> usize {
        (self.next() % n as u64) as usize
    }
    fn coin(&mut self) -> bool {
        self.next() & 1 == 1
    }
}

// ---------------------------------------------------------------------------------------------
// helpers following the C modules' protocol

fn cstr(s: &str) -> CString {
    CString::new(s.replace('\0', "")).unwrap()
}

/// build an input header list the way a C module does (caller-owned)
unsafe fn build_header_map(headers: &[(Vec<u8>, Vec<u8>)]) -> *mut HeaderMap {
    let mut head: *mut HeaderMap = null_mut();
    for (n, v) in headers.iter().rev() {
        let name = CString::new(n.iter().copied().filter(|b| *b != 0).collect::<Vec<u8>>()).unwrap().into_raw();
        let value = CString::new(v.iter().copied().filter(|b| *b != 0).collect::<Vec<u8>>()).unwrap().into_raw();
        head = Box::into_raw(Box::new(HeaderMap { name, value, next: head }));
    }
    head
}

/// release a header list node by node and string by string; returns its content
unsafe fn take_header_map(mut cur: *mut HeaderMap) -> Vec<(String, String)> {
    let mut out = Vec::new();
    while !cur.is_null() {
        let node = Box::from_raw(cur);
        let name = if node.name.is_null() { None } else { Some(CString::from_raw(node.name as *mut c_char)) };
        let value = if node.value.is_null() { None } else { Some(CString::from_raw(node.value as *mut c_char)) };
        if let (Some(n), Some(v)) = (&name, &value) {
            out.push((n.to_string_lossy().to_string(), v.to_string_lossy().to_string()));
        }
        cur = node.next;
    }
    out
}

unsafe fn take_string(p: *const c_char) -> Option<String> {
    if p.is_null() {
        None
    } else {
        let s = CStr::from_ptr(p).to_string_lossy().to_string();
        drop(CString::from_raw(p as *mut c_char));
        Some(s)
    }
}

/// a buffer allocated exactly (len == capacity), as the ownership-transfer contract requires
fn exact_buffer(bytes: &[u8]) -> Buffer {
    if bytes.is_empty() {
        return Buffer::default();
    }
    let boxed: Box<[u8]> = bytes.to_vec().into_boxed_slice();
    let len = boxed.len();
    let data = Box::into_raw(boxed) as *mut u8;
    unsafe { std::mem::transmute::<RawBuffer, Buffer>(RawBuffer { data, len }) }
}

/// copy the content of a buffer handed back by the library, then release it through the API
unsafe fn take_buffer(b: Buffer) -> Vec<u8> {
    let raw: RawBuffer = std::mem::transmute_copy(&b);
    let content = if raw.data.is_null() || raw.len == 0 { Vec::new() } else { std::slice::from_raw_parts(raw.data, raw.len).to_vec() };
    redirectionio_api_buffer_drop(b);
    content
}

// ---------------------------------------------------------------------------------------------
// scenario material

/// set by --no-selectors: Stacked-Borrows Miri runs avoid CSS selectors because the selector engine's
/// own dependency (servo_arc) is rejected by Stacked Borrows (third-party code, accepted by Tree Borrows)
static NO_SELECTORS: std::sync::atomic::AtomicBool = std::sync::atomic::AtomicBool::new(false);

fn action_json(rng: &mut Rng, with_nul_header: bool) -> String {
    let status = match rng.below(4) {
        0 => "null".to_string(),
        1 => r#"{"status_code":301,"on_response_status_codes":[],"exclude_response_status_codes":false,"fallback_status_code":0,"rule_id":"r1","fallback_rule_id":null,"unit_id":null,"target_hash":"status_code"}"#.to_string(),
        2 => r#"{"status_code":410,"on_response_status_codes":[404],"exclude_response_status_codes":false,"fallback_status_code":302,"rule_id":"r2","fallback_rule_id":"r1","unit_id":"u","target_hash":"status_code"}"#.to_string(),
        _ => r#"{"status_code":302,"on_response_status_codes":[200],"exclude_response_status_codes":true,"fallback_status_code":0,"rule_id":"r3","fallback_rule_id":null,"unit_id":null,"target_hash":null}"#.to_string(),
    };
    let mut header_filters = Vec::new();
    let n = rng.below(4);
    for i in 0..n {
        let (action, header) = [("add", "X-Add"), ("override", "Location"), ("remove", "X-Rm"), ("default", "X-Def"), ("replace", "x-rep")][rng.below(5)];
        let value = if with_nul_header && i == 0 { "9f\\u000086".to_string() } else { ["v", "", "a b", "caf\u{e9}", "x".repeat(300).as_str()][rng.below(5)].to_string() };
        header_filters.push(format!(
            r#"{{"filter":{{"action":"{action}","header":"{header}","value":"{value}","id":null,"target_hash":null}},"on_response_status_codes":[],"exclude_response_status_codes":false,"rule_id":"r{i}"}}"#
        ));
    }
    let mut body_filters = Vec::new();
    let m = rng.below(3);
    for i in 0..m {
        let variants = if NO_SELECTORS.load(std::sync::atomic::Ordering::Relaxed) { 3 } else { 4 };
        let f = match rng.below(variants) {
            0 => r#"{"action":"append_text","content":"<!-- appended -->","id":null,"target_hash":null}"#.to_string(),
            1 => r#"{"action":"prepend_text","content":"PREPENDED","id":null,"target_hash":null}"#.to_string(),
            2 => r#"{"action":"append_child","value":"<p>inserted paragraph</p>","inner_value":null,"element_tree":["html","body"],"css_selector":null,"id":null,"target_hash":null}"#.to_string(),
            _ => r#"{"action":"prepend_child","value":"<meta name=x>","inner_value":null,"element_tree":["html","head"],"css_selector":"meta[name=\"x\"]","id":null,"target_hash":null}"#.to_string(),
        };
        body_filters.push(format!(r#"{{"filter":{f},"on_response_status_codes":[],"exclude_response_status_codes":false,"rule_id":"b{i}"}}"#));
    }
    let log = match rng.below(4) {
        0 => "null".to_string(),
        3 => r#"{"log_override":true,"rule_id":"r-log","on_response_status_codes":[],"exclude_response_status_codes":false,"fallback_log_override":null,"fallback_rule_id":null,"unit_id":null}"#.to_string(),
        1 => r#"{"log_override":false,"rule_id":"r1","on_response_status_codes":[],"exclude_response_status_codes":false,"fallback_log_override":null,"fallback_rule_id":null,"unit_id":null}"#.to_string(),
        _ => r#"{"log_override":true,"rule_id":"r2","on_response_status_codes":[404],"exclude_response_status_codes":false,"fallback_log_override":false,"fallback_rule_id":"r1","unit_id":"u"}"#.to_string(),
    };
    format!(
        r#"{{"status_code_update":{status},"header_filters":[{}],"body_filters":[{}],"rule_ids":["r1"],"rule_traces":[{{"id":"r1","on_response_status_codes":[],"exclude_response_status_codes":false}}],"rules_applied":[],"log_override":{log}}}"#,
        header_filters.join(","),
        body_filters.join(",")
    )
}

fn body_payload(rng: &mut Rng, max: usize) -> Vec<u8> {
    let base = b"<html><head><title>t</title></head><body class=\"page\"><div>Yolo</div>".to_vec();
    let size = match rng.below(6) {
        0 => 0,
        1 => 1,
        2 => 200,
        3 => 4096,
        4 => 65536.min(max),
        _ => (1 << 20).min(max),
    };
    let mut v = base;
    let tail = b"</body></html>";
    while v.len() + tail.len() < size {
        v.extend_from_slice(b"<p>lorem ipsum dolor sit amet</p>\n");
    }
    v.extend_from_slice(tail);
    match size {
        0 => Vec::new(),
        1 => vec![b'<'],
        _ => v,
    }
}

fn header_list(rng: &mut Rng) -> Vec<(Vec<u8>, Vec<u8>)> {
    let n = [0usize, 1, 3, 50][rng.below(4)];
    (0..n)
        .map(|i| {
            let name = ["Content-Type", "content-type", "X-Rm", "Location", "Set-Cookie", "X-Def", "x-rep", "Content-Encoding"][i % 8].as_bytes().to_vec();
            let value = match rng.below(6) {
                0 => Vec::new(),
                1 => "caf\u{e9}".as_bytes().to_vec(),
                2 if name.eq_ignore_ascii_case(b"content-encoding") => b"identity".to_vec(),
                _ if name.eq_ignore_ascii_case(b"content-type") => b"text/html; charset=utf-8".to_vec(),
                _ if name.eq_ignore_ascii_case(b"content-encoding") => b"gzip".to_vec(),
                _ => format!("value-{i}").into_bytes(),
            };
            (name, value)
        })
        .collect()
}

fn native_headers(list: &[(Vec<u8>, Vec<u8>)]) -> Vec<Header> {
    list.iter()
        .filter_map(|(n, v)| match (String::from_utf8(n.clone()), String::from_utf8(v.clone())) {
            (Ok(n), Ok(v)) => Some(Header { name: n, value: v }),
            _ => None,
        })
        .collect()
}

struct Outcome {
    violations: Vec<String>,
    ops: u64,
}

impl Outcome {
    fn new() -> Outcome {
        Outcome { violations: Vec::new(), ops: 0 }
    }
    fn check(&mut self, ok: bool, what: impl FnOnce() -> String) {
        self.ops += 1;
        if !ok {
            self.violations.push(what());
        }
    }
}

// ---------------------------------------------------------------------------------------------
// scenarios

/// full life cycle of a request, an action, header filtering, body filtering and logging
unsafe fn scenario_lifecycle(seed: u64, max_payload: usize, out: &mut Outcome) {
    let mut rng = Rng(seed);
    let with_nul = rng.below(8) == 0;
    let json = action_json(&mut rng, with_nul);
    let native: Action = serde_json::from_str(&json).expect("generated action json");

    // request
    let req_headers = header_list(&mut rng);
    let req_map = build_header_map(&req_headers);
    let uri = cstr(["/foo?utm_source=x&a=1", "/", "/caf\u{e9}", "/a b"][rng.below(4)]);
    let host = cstr("example.org");
    let scheme = cstr("https");
    let method = cstr(["GET", "POST"][rng.below(2)]);
    let request = match rng.below(3) {
        0 => redirectionio_request_create(uri.as_ptr(), host.as_ptr(), scheme.as_ptr(), method.as_ptr(), req_map) as *mut Request,
        1 => redirectionio_request_from_str(cstr("https://example.org/foo?bar=baz").as_ptr()) as *mut Request,
        _ => {
            let r0 = redirectionio_request_create(uri.as_ptr(), host.as_ptr(), null(), null(), null()) as *mut Request;
            let s = redirectionio_request_json_serialize(r0);
            redirectionio_request_drop(r0);
            let text = take_string(s).unwrap_or_default();
            let c = cstr(&text).into_raw();
            let r1 = redirectionio_request_json_deserialize(c) as *mut Request;
            drop(CString::from_raw(c));
            r1
        }
    };
    out.check(!request.is_null(), || "request creation returned NULL".to_string());
    let _ = take_header_map(req_map); // request_create only reads the header map: still the caller's
    if !request.is_null() {
        let addr = cstr(["10.1.2.3", "10.1.2.3:8080", "[::1]:80", "garbage", ""][rng.below(5)]);
        redirectionio_request_set_remote_addr(request, addr.as_ptr(), null());
        let s = redirectionio_request_json_serialize(request);
        let text = take_string(s);
        out.check(text.as_deref() == Some(serde_json::to_string(&*request).unwrap().as_str()), || "request serialisation differs from serde_json".to_string());
    }

    // action
    let c = cstr(&json).into_raw();
    let action = redirectionio_action_json_deserialize(c) as *mut Action;
    drop(CString::from_raw(c));
    out.check(!action.is_null(), || format!("action deserialisation returned NULL for {json}"));
    if action.is_null() {
        if !request.is_null() {
            redirectionio_request_drop(request);
        }
        return;
    }
    let s = take_string(redirectionio_action_json_serialize(action));
    out.check(s.as_deref() == Some(serde_json::to_string(&native).unwrap().as_str()), || "action serialisation differs from serde_json".to_string());

    let code = [0u16, 200, 404][rng.below(3)];
    let mut native_a = native.clone();
    let got = redirectionio_action_get_status_code(action, code);
    out.check(got == native_a.get_status_code(code, None), || format!("get_status_code({code}) = {got} differs from native"));

    // header filtering: fresh list out, input stays the caller's
    let resp_headers = header_list(&mut rng);
    let resp_map = build_header_map(&resp_headers);
    let add_ids = rng.coin();
    let filtered = redirectionio_action_header_filter_filter(action, resp_map, code, add_ids) as *mut HeaderMap;
    out.check(filtered != resp_map || resp_map.is_null(), || "header_filter_filter returned the input list although an action was given".to_string());
    let mut got_headers = take_header_map(filtered);
    let mut want_headers: Vec<(String, String)> = native_a
        .filter_headers(native_headers(&resp_headers), code, add_ids, None)
        .into_iter()
        .filter(|h| !h.name.contains('\0') && !h.value.contains('\0'))
        .map(|h| (h.name, h.value))
        .collect();
    got_headers.sort();
    want_headers.sort();
    out.check(got_headers == want_headers, || format!("filtered headers (as a multiset) differ from native: {got_headers:?} vs {want_headers:?}"));

    // body filtering
    let filter = redirectionio_action_body_filter_create(action, code, resp_map) as *mut FilterBodyAction;
    let mut native_filter = native_a.create_filter_body(code, &native_headers(&resp_headers));
    out.check(filter.is_null() == native_filter.is_none(), || "body_filter_create NULL-ness differs from native".to_string());
    let _ = take_header_map(resp_map);
    if !filter.is_null() {
        let body = body_payload(&mut rng, max_payload);
        let n_chunks = 1 + rng.below(4);
        let mut produced = Vec::new();
        let mut expected = Vec::new();
        let chunk = body.len() / n_chunks + 1;
        for part in body.chunks(chunk.max(1)).chain(if body.is_empty() { Some(&body[..]) } else { None }) {
            let result = redirectionio_action_body_filter_filter(filter, exact_buffer(part));
            produced.extend(take_buffer(result));
            if let Some(f) = native_filter.as_mut() {
                expected.extend(f.filter(part.to_vec(), None));
            }
        }
        if rng.below(5) == 0 {
            // abandon the stream: drop instead of close
            redirectionio_action_body_filter_drop(filter);
        } else {
            produced.extend(take_buffer(redirectionio_action_body_filter_close(filter)));
            if let Some(f) = native_filter.as_mut() {
                expected.extend(f.end(None));
            }
            out.check(produced == expected, || format!("body filter output differs from native ({} vs {} bytes)", produced.len(), expected.len()));
        }
    }

    let allow = rng.coin();
    let got = redirectionio_action_should_log_request(action, allow, code);
    out.check(got == native_a.should_log_request(allow, code, None), || format!("should_log_request({allow}, {code}) = {got} differs from native"));
    // the calls above mutate the action (applied rule ids): the object behind the C pointer must have gone
    // through the same history as the native one
    let s = take_string(redirectionio_action_json_serialize(action));
    out.check(s.as_deref() == Some(serde_json::to_string(&native_a).unwrap().as_str()), || {
        "action serialisation after get_status_code / header filter / body filter / should_log differs from the native action after the same calls".to_string()
    });

    // log line
    if !request.is_null() {
        // response headers as a proxy hands them over: repeated Location / Content-Type lines with different values, an
        // empty value
        let log_list: Vec<(Vec<u8>, Vec<u8>)> = match rng.below(3) {
            0 => vec![(b"Location".to_vec(), b"/bar".to_vec()), (b"Content-Type".to_vec(), b"text/html".to_vec())],
            1 => vec![
                (b"Location".to_vec(), b"/set-by-the-backend".to_vec()),
                (b"Content-Type".to_vec(), b"text/plain".to_vec()),
                (b"X-Empty".to_vec(), Vec::new()),
                (b"location".to_vec(), b"/set-by-the-redirection".to_vec()),
                (b"content-type".to_vec(), b"text/html; charset=utf-8".to_vec()),
            ],
            _ => header_list(&mut rng),
        };
        let log_headers = build_header_map(&log_list);
        let proxy = cstr("driver/1.0");
        let ip = cstr("192.168.0.1");
        let log = take_string(redirectionio_api_create_log_in_json(request, 301, log_headers, action, proxy.as_ptr(), 1_700_000_000_000, ip.as_ptr()));
        out.check(log.as_deref().map(|l| l.contains("\"code\":301")).unwrap_or(false), || "log line missing or malformed".to_string());
        // value oracle: the same log built natively from the same request, headers and action (the elapsed time is
        // the only field that depends on the clock)
        fn without_duration(v: &mut serde_json::Value) {
            match v {
                serde_json::Value::Object(m) => {
                    m.remove("duration");
                    for x in m.values_mut() {
                        without_duration(x);
                    }
                }
                serde_json::Value::Array(a) => a.iter_mut().for_each(without_duration),
                _ => {}
            }
        }
        let native_log = redirectionio::api::Log::from_proxy(&*request, 301, &native_headers(&log_list), Some(&native_a), "driver/1.0", 1_700_000_000_000u128, "192.168.0.1");
        let mut want = serde_json::to_value(&native_log).unwrap_or(serde_json::Value::Null);
        let mut got = log.as_deref().and_then(|l| serde_json::from_str::<serde_json::Value>(l).ok()).unwrap_or(serde_json::Value::Null);
        without_duration(&mut want);
        without_duration(&mut got);
        out.check(got == want, || format!("create_log_in_json differs from the native log for response headers {:?}: {got} vs {want}", log_list.iter().map(|(n, v)| (String::from_utf8_lossy(n).to_string(), String::from_utf8_lossy(v).to_string())).collect::<Vec<_>>()));
        let _ = take_header_map(log_headers);
    }
    let v = take_string(redirectionio_api_get_rule_api_version());
    out.check(v.as_deref() == Some("2.0.0"), || "rule api version".to_string());

    redirectionio_action_drop(action);
    if !request.is_null() {
        redirectionio_request_drop(request);
    }
}

/// buffers: round trip, duplicate, capacity != length on the way back
unsafe fn scenario_buffers(seed: u64, max_payload: usize, out: &mut Outcome) {
    let mut rng = Rng(seed);
    let payload = body_payload(&mut rng, max_payload);
    // round trip through the crate's own constructors
    let mut v = Vec::with_capacity(payload.len() + 1 + rng.below(64));
    v.extend_from_slice(&payload);
    let b = Buffer::from_vec(v);
    let back = take_buffer(b);
    out.check(back == payload, || "Buffer::from_vec round trip changed the content".to_string());
    let b = Buffer::from_string(String::from_utf8_lossy(&payload).to_string());
    let back = take_buffer(b);
    out.check(back == String::from_utf8_lossy(&payload).as_bytes(), || "Buffer::from_string round trip changed the content".to_string());
    // duplicate / clone / to_vec
    let b = exact_buffer(&payload);
    let d = b.duplicate();
    let c = b.clone();
    let t = b.to_vec();
    out.check(t == payload, || "Buffer::to_vec differs".to_string());
    out.check(take_buffer(d) == payload, || "Buffer::duplicate differs".to_string());
    out.check(take_buffer(c) == payload, || "Buffer::clone differs".to_string());
    out.check(b.into_vec() == payload, || "Buffer::into_vec differs".to_string());
    // NULL filter: the documented neutral value is a copy of the input
    let result = redirectionio_action_body_filter_filter(null_mut(), exact_buffer(&payload));
    out.check(take_buffer(result) == payload, || "body_filter_filter(NULL, b) must return the content of b".to_string());
}

/// every documented-null pattern and hostile C strings (C07: must return normally)
unsafe fn scenario_nulls(seed: u64, out: &mut Outcome) {
    let mut rng = Rng(seed);
    let invalid = CString::new(vec![b'/', 0xff, 0xfe, b'x']).unwrap();
    let latin1 = CString::new(vec![b'c', b'a', b'f', 0xe9]).unwrap();
    let empty = cstr("");
    let valid = cstr("/x");
    let pick = |rng: &mut Rng| -> *const c_char {
        match rng.below(5) {
            0 => null(),
            1 => invalid.as_ptr(),
            2 => latin1.as_ptr(),
            3 => empty.as_ptr(),
            _ => valid.as_ptr(),
        }
    };
    out.check(redirectionio_action_json_deserialize(null_mut()).is_null(), || "action_json_deserialize(NULL)".to_string());
    out.check(redirectionio_action_json_serialize(null_mut()).is_null(), || "action_json_serialize(NULL)".to_string());
    redirectionio_action_drop(null_mut());
    out.check(redirectionio_action_get_status_code(null_mut(), 404) == 0, || "get_status_code(NULL)".to_string());
    out.check(redirectionio_action_should_log_request(null_mut(), true, 0), || "should_log_request(NULL, true)".to_string());
    out.check(!redirectionio_action_should_log_request(null_mut(), false, 0), || "should_log_request(NULL, false)".to_string());
    out.check(redirectionio_action_body_filter_create(null_mut(), 200, null()).is_null(), || "body_filter_create(NULL)".to_string());
    redirectionio_action_body_filter_drop(null_mut());
    let b = redirectionio_action_body_filter_close(null_mut());
    out.check(take_buffer(b).is_empty(), || "body_filter_close(NULL)".to_string());
    redirectionio_api_buffer_drop(Buffer::default());
    out.check(redirectionio_request_json_deserialize(null_mut()).is_null(), || "request_json_deserialize(NULL)".to_string());
    out.check(redirectionio_request_json_serialize(null()).is_null(), || "request_json_serialize(NULL)".to_string());
    redirectionio_request_drop(null_mut());
    redirectionio_request_set_remote_addr(null_mut(), valid.as_ptr(), null());
    out.check(redirectionio_api_create_log_in_json(null_mut(), 200, null(), null_mut(), null(), 0, null()).is_null(), || "create_log_in_json(NULL request)".to_string());
    redirectionio_trusted_proxies_add_proxy(null_mut(), valid.as_ptr());

    // NULL action: the input list itself comes back (one release, not two)
    let headers = build_header_map(&[(b"A".to_vec(), b"1".to_vec())]);
    let same = redirectionio_action_header_filter_filter(null_mut(), headers, 200, true);
    out.check(same == headers as *const HeaderMap, || "header_filter_filter(NULL action) must return the input list".to_string());
    let _ = take_header_map(headers);

    // garbage / invalid UTF-8 / NULL strings everywhere
    for _ in 0..6 {
        let r = redirectionio_request_create(pick(&mut rng), pick(&mut rng), pick(&mut rng), pick(&mut rng), null()) as *mut Request;
        out.check(!r.is_null(), || "request_create with hostile strings returned NULL".to_string());
        if !r.is_null() {
            redirectionio_request_set_remote_addr(r, pick(&mut rng), null());
            let log = redirectionio_api_create_log_in_json(r, 0, null(), null_mut(), pick(&mut rng), u64::MAX, pick(&mut rng));
            let _ = take_string(log);
            let _ = take_string(redirectionio_request_json_serialize(r));
            redirectionio_request_drop(r);
        }
        let r = redirectionio_request_from_str(pick(&mut rng)) as *mut Request;
        if !r.is_null() {
            redirectionio_request_drop(r);
        }
        let c = match rng.below(4) {
            0 => CString::new(vec![b'{', 0xff, b'}']).unwrap(),
            1 => cstr("{}"),
            2 => cstr("[1,2"),
            _ => cstr("null"),
        }
        .into_raw();
        let a = redirectionio_action_json_deserialize(c) as *mut Action;
        drop(CString::from_raw(c));
        if !a.is_null() {
            redirectionio_action_drop(a);
        }
        let c = cstr("not a request").into_raw();
        let r = redirectionio_request_json_deserialize(c) as *mut Request;
        drop(CString::from_raw(c));
        if !r.is_null() {
            redirectionio_request_drop(r);
        }
    }

    // header lists with NULL / non-UTF-8 names and values, on every entry point that takes a list
    let name_ok = CString::new("X-Ok").unwrap().into_raw();
    let value_bad = CString::new(vec![b'c', 0xe9]).unwrap().into_raw();
    let name_bad = CString::new(vec![0xff, b'n']).unwrap().into_raw();
    let value_ok = CString::new("v").unwrap().into_raw();
    let third = Box::into_raw(Box::new(HeaderMap { name: null(), value: null(), next: null_mut() }));
    let second = Box::into_raw(Box::new(HeaderMap { name: name_bad, value: value_ok, next: third }));
    let first = Box::into_raw(Box::new(HeaderMap { name: name_ok, value: value_bad, next: second }));
    let r = redirectionio_request_create(valid.as_ptr(), null(), null(), null(), first) as *mut Request;
    let json = action_json(&mut rng, false);
    let c = cstr(&json).into_raw();
    let a = redirectionio_action_json_deserialize(c) as *mut Action;
    drop(CString::from_raw(c));
    if !a.is_null() {
        let filtered = redirectionio_action_header_filter_filter(a, first, 200, false) as *mut HeaderMap;
        let _ = take_header_map(filtered);
        let f = redirectionio_action_body_filter_create(a, 200, first) as *mut FilterBodyAction;
        redirectionio_action_body_filter_drop(f);
        if !r.is_null() {
            let _ = take_string(redirectionio_api_create_log_in_json(r, 200, first, a, null(), 0, null()));
        }
        redirectionio_action_drop(a);
    }
    if !r.is_null() {
        redirectionio_request_drop(r);
    }
    let _ = take_header_map(first);
}

extern "C" fn log_callback(message: *const c_char, _data: *const c_void, _level: c_short) {
    // the callback owns the string
    unsafe {
        let _ = take_string(message);
    }
}
static CALLBACK_DATA: u8 = 0;

/// documented immortals: trusted proxies (created once, never freed) and the logger
unsafe fn scenario_immortal(seed: u64, out: &mut Outcome) {
    let mut rng = Rng(seed);
    let list = cstr(["10.0.0.0/8, 192.168.0.0/16", "", "garbage,,10.0.0.1", "::1"][rng.below(4)]);
    let proxies = redirectionio_trusted_proxies_create(list.as_ptr()) as *mut TrustedProxies;
    out.check(!proxies.is_null(), || "trusted_proxies_create returned NULL".to_string());
    redirectionio_trusted_proxies_add_proxy(proxies, cstr("172.16.0.0/12").as_ptr());
    redirectionio_trusted_proxies_add_proxy(proxies, cstr("nonsense").as_ptr());
    let headers = build_header_map(&[(b"X-Forwarded-For".to_vec(), b"203.0.113.7, 10.0.0.2".to_vec()), (b"Forwarded".to_vec(), b"for=\"[2001:db8::1]\";proto=https".to_vec())]);
    let r = redirectionio_request_create(cstr("/x").as_ptr(), null(), null(), null(), headers) as *mut Request;
    let _ = take_header_map(headers);
    if !r.is_null() {
        redirectionio_request_set_remote_addr(r, cstr("10.0.0.1:443").as_ptr(), proxies);
        let json = take_string(redirectionio_request_json_serialize(r)).unwrap_or_default();
        out.check(json.contains("remote_addr"), || "remote address missing after set_remote_addr".to_string());
        redirectionio_request_drop(r);
    }
    // a list given at creation and the same entries added one by one describe the same proxies: the client address
    // derived from a forwarding chain must be the same (unparsable entries are skipped, wherever they stand)
    {
        let lists: [&[&str]; 6] = [
            &["203.0.113.0/24"],
            &["not-an-ip", "203.0.113.0/24"],
            &["203.0.113.0/24", "not-an-ip", "198.51.100.0/24"],
            &["", " 198.51.100.0/24 ", "garbage/99", "203.0.113.9"],
            &["garbage"],
            &["2001:db8::/32", "300.1.1.1", "203.0.113.0/24"],
        ];
        let entries = lists[rng.below(lists.len())];
        let joined = cstr(&entries.join(","));
        let at_once = redirectionio_trusted_proxies_create(joined.as_ptr()) as *mut TrustedProxies;
        let one_by_one = redirectionio_trusted_proxies_create(cstr("").as_ptr()) as *mut TrustedProxies;
        for e in entries {
            redirectionio_trusted_proxies_add_proxy(one_by_one, cstr(e.trim()).as_ptr());
        }
        let chains: [&[u8]; 4] = [b"192.0.2.55, 198.51.100.7", b"192.0.2.55, 203.0.113.9, 198.51.100.7", b"192.0.2.55", b"192.0.2.55, 2001:db8::5"];
        let chain = chains[rng.below(chains.len())];
        let peer = ["203.0.113.9:443", "198.51.100.7:80", "10.0.0.1:1", "[2001:db8::9]:443"][rng.below(4)];
        let mut seen: Vec<String> = Vec::new();
        for proxies in [at_once, one_by_one] {
            let headers = build_header_map(&[(b"X-Forwarded-For".to_vec(), chain.to_vec())]);
            let r = redirectionio_request_create(cstr("/x").as_ptr(), null(), null(), null(), headers) as *mut Request;
            let _ = take_header_map(headers);
            if !r.is_null() {
                redirectionio_request_set_remote_addr(r, cstr(peer).as_ptr(), proxies);
                seen.push(format!("{:?}", (*r).remote_addr));
                redirectionio_request_drop(r);
            }
        }
        out.check(seen.len() == 2 && seen[0] == seen[1], || {
            format!("trusted proxies {entries:?} given at creation yield client address {:?}, added one by one {:?} (peer {peer}, X-Forwarded-For {:?})", seen.first(), seen.get(1), String::from_utf8_lossy(chain))
        });
    }
    // "no trusted proxies configured" has three spellings — a NULL object, an object created from NULL, an object
    // created from the empty list — and they must derive the same client address from the same peer and forwarding
    // headers (peers in private, loopback and public ranges; X-Forwarded-For and Forwarded)
    {
        let peer = ["10.0.0.1:1", "127.0.0.1:80", "192.168.1.1:9", "[::1]:80", "203.0.113.9:443", "172.16.3.4:1"][rng.below(6)];
        let header: (&[u8], &[u8]) = [
            (&b"X-Forwarded-For"[..], &b"203.0.113.7"[..]),
            (&b"X-Forwarded-For"[..], &b"198.51.100.1, 10.9.9.9"[..]),
            (&b"Forwarded"[..], &b"for=203.0.113.7;proto=https"[..]),
            (&b"forwarded"[..], &b"for=\"[2001:db8::7]:4711\""[..]),
        ][rng.below(4)];
        let from_null = redirectionio_trusted_proxies_create(null()) as *mut TrustedProxies;
        let from_empty = redirectionio_trusted_proxies_create(cstr("").as_ptr()) as *mut TrustedProxies;
        let mut seen: Vec<String> = Vec::new();
        for proxies in [null_mut(), from_null, from_empty] {
            let headers = build_header_map(&[(header.0.to_vec(), header.1.to_vec())]);
            let r = redirectionio_request_create(cstr("/x").as_ptr(), null(), null(), null(), headers) as *mut Request;
            let _ = take_header_map(headers);
            if !r.is_null() {
                redirectionio_request_set_remote_addr(r, cstr(peer).as_ptr(), proxies);
                seen.push(format!("{:?}", (*r).remote_addr));
                redirectionio_request_drop(r);
            }
        }
        out.check(seen.len() == 3 && seen[0] == seen[1] && seen[1] == seen[2], || {
            format!("no trusted proxies configured: a NULL object yields client address {:?}, an object created from NULL {:?}, from the empty list {:?} (peer {peer}, {} {:?})", seen.first(), seen.get(1), seen.get(2), String::from_utf8_lossy(header.0), String::from_utf8_lossy(header.1))
        });
    }
    redirectionio_log_init_with_callback(log_callback, &*(&CALLBACK_DATA as *const u8 as *const c_void));
    // produce a log line through the callback: an invalid action json logs an error
    let c = cstr("{not json").into_raw();
    let a = redirectionio_action_json_deserialize(c);
    drop(CString::from_raw(c));
    out.check(a.is_null(), || "invalid action json accepted".to_string());
}

// ---------------------------------------------------------------------------------------------

fn main() {
    let args: Vec<String> = std::env::args().collect();
    let mut seed: u64 = 1;
    let mut scenarios: usize = 100;
    let mut family = "all".to_string();
    let mut only: Option<usize> = None;
    let mut max_payload: usize = 1 << 20;
    let mut shard = (0usize, 1usize);
    let mut i = 1;
    while i < args.len() {
        match args[i].as_str() {
            "--seed" => {
                i += 1;
                seed = args[i].parse().unwrap_or(1);
            }
            "--scenarios" => {
                i += 1;
                scenarios = args[i].parse().unwrap_or(100);
            }
            "--family" => {
                i += 1;
                family = args[i].clone();
            }
            "--only" => {
                i += 1;
                only = args[i].parse().ok();
            }
            "--max-payload" => {
                i += 1;
                max_payload = args[i].parse().unwrap_or(1 << 20);
            }
            "--no-selectors" => NO_SELECTORS.store(true, std::sync::atomic::Ordering::Relaxed),
            "--shard" => {
                i += 1;
                let mut p = args[i].split('/');
                shard = (p.next().and_then(|x| x.parse().ok()).unwrap_or(0), p.next().and_then(|x| x.parse().ok()).unwrap_or(1));
            }
            _ => {}
        }
        i += 1;
    }

    let kinds: Vec<&str> = match family.as_str() {
        "lifecycle" => vec!["lifecycle", "buffers"],
        "nulls" => vec!["nulls"],
        "immortal" => vec!["immortal"],
        _ => vec!["lifecycle", "buffers", "nulls", "lifecycle"],
    };
    let audited = cfg!(feature = "audit");
    let mut total = Outcome::new();
    let mut executed = 0usize;
    let mut leaks: Vec<String> = Vec::new();
    let mut per_kind: std::collections::BTreeMap<String, u64> = std::collections::BTreeMap::new();
    let before_all = audit_snapshot();

    for n in 0..scenarios {
        if n % shard.1 != shard.0 {
            continue;
        }
        if let Some(o) = only {
            if o != n {
                continue;
            }
        }
        let kind = kinds[n % kinds.len()];
        let s = seed.wrapping_mul(1_000_003).wrapping_add(n as u64);
        eprintln!("BEGIN {n} {kind}");
        // leak decision by repetition (audit builds): the same scenario four times
        let repeats = if audited && kind != "immortal" { 4 } else { 1 };
        let mut live_after: Vec<i64> = Vec::new();
        // the messages of value violations are allocations of the monitor itself: a scenario that produced any
        // gets no leak verdict (it already fails the check), otherwise the monitor would report its own strings
        let mut monitor_allocated = false;
        for _ in 0..repeats {
            let mut out = Outcome::new();
            unsafe {
                match kind {
                    "lifecycle" => scenario_lifecycle(s, max_payload, &mut out),
                    "buffers" => scenario_buffers(s, max_payload, &mut out),
                    "nulls" => scenario_nulls(s, &mut out),
                    _ => scenario_immortal(s, &mut out),
                }
            }
            total.ops += out.ops;
            monitor_allocated |= !out.violations.is_empty();
            for v in out.violations {
                if total.violations.len() < 50 {
                    total.violations.push(format!("scenario {n} ({kind}, seed {s}): {v}"));
                }
            }
            live_after.push(audit_snapshot().live);
        }
        if repeats == 4 && !monitor_allocated && live_after[1] < live_after[2] && live_after[2] < live_after[3] {
            leaks.push(format!(
                "scenario {n} ({kind}, seed {s}): the live allocation count keeps growing when the scenario is repeated: {live_after:?}"
            ));
        }
        eprintln!("END {n}");
        executed += 1;
        *per_kind.entry(kind.to_string()).or_insert(0) += 1;
    }

    let after_all = audit_snapshot();
    let mismatches = after_all.mismatches - before_all.mismatches;
    let unknown = after_all.unknown - before_all.unknown;
    #[cfg(feature = "audit")]
    let (first_alloc, first_free, table_full, allocs) = {
        use std::sync::atomic::Ordering::Relaxed;
        (
            audit::FIRST_MISMATCH_ALLOC_SIZE.load(Relaxed),
            audit::FIRST_MISMATCH_FREE_SIZE.load(Relaxed),
            audit::TABLE_FULL.load(Relaxed),
            audit::ALLOCS.load(Relaxed),
        )
    };
    #[cfg(not(feature = "audit"))]
    let (first_alloc, first_free, table_full, allocs) = (0usize, 0usize, 0u64, 0u64);

    let summary = serde_json::json!({
        "audited": audited,
        "seed": seed,
        "family": family,
        "scenarios": executed,
        "per_kind": per_kind,
        "ops": total.ops,
        "value_violations": total.violations,
        "layout_mismatches": mismatches,
        "first_layout_mismatch": {"allocated_size": first_alloc, "freed_with_size": first_free},
        "frees_of_unknown_pointers": unknown,
        "leaks": leaks,
        "allocations_observed": allocs,
        "audit_table_overflow": table_full,
    });
    println!("{summary}");
    let bad = !total.violations.is_empty() || mismatches > 0 || unknown > 0 || !leaks.is_empty();
    std::process::exit(if table_full > 0 { 3 } else if bad { 1 } else { 0 });
}
