//! Shared machinery of the body-filter monitors (C03, C04, C14, C15): filter-list specs, the chunked
//! runner with hook sampling, partition generators and an independent markup span scanner.

use crate::prng::Rng;
use redirectionio::api::BodyFilter;
use redirectionio::filter::FilterBodyAction;
use redirectionio::http::Header;
use serde::{Deserialize, Serialize};
use serde_json::{json, Value};

#[derive(Clone, Debug, Serialize, Deserialize, PartialEq, Eq)]
pub struct FilterCase {
    /// BodyFilter JSON objects (the production deserialisation path)
    pub filters: Vec<Value>,
    pub headers: Vec<(String, String)>,
}

impl FilterCase {
    pub fn body_filters(&self) -> Vec<BodyFilter> {
        self.filters
            .iter()
            .filter_map(|f| serde_json::from_value::<BodyFilter>(f.clone()).ok())
            .collect()
    }

    pub fn http_headers(&self) -> Vec<Header> {
        self.headers
            .iter()
            .map(|(n, v)| Header {
                name: n.clone(),
                value: v.clone(),
            })
            .collect()
    }

    pub fn create(&self) -> FilterBodyAction {
        FilterBodyAction::new(self.body_filters(), &self.http_headers())
    }

    /// inserted / replacement values of all filters
    pub fn values(&self) -> Vec<String> {
        self.filters
            .iter()
            .filter_map(|f| f.get("value").or_else(|| f.get("content")).and_then(|v| v.as_str()).map(|s| s.to_string()))
            .collect()
    }

    pub fn actions(&self) -> Vec<String> {
        self.filters
            .iter()
            .map(|f| f.get("action").and_then(|v| v.as_str()).unwrap_or("").to_string())
            .collect()
    }
}

pub fn html_filter(action: &str, path: &[&str], selector: Option<&str>, value: &str) -> Value {
    let mut f = json!({
        "action": action,
        "value": value,
        "element_tree": path,
        "css_selector": selector,
    });
    // `inner_value` exists for the unit trace only: whatever it holds (absent, empty, another text) must never
    // reach the body; a third of the filters each way, decided by the filter itself (deterministic)
    match (value.len() + path.len() + action.len() + selector.map(|s| s.len()).unwrap_or(0)) % 3 {
        0 => f["inner_value"] = json!("INNER-VALUE-IS-FOR-THE-TRACE-ONLY"),
        1 => f["inner_value"] = json!(""),
        _ => {}
    }
    f
}

pub fn text_filter(action: &str, content: &str) -> Value {
    json!({"action": action, "content": content})
}

#[derive(Clone, Debug, Default)]
pub struct Run {
    pub out: Vec<u8>,
    /// the chain had no stage (no filter created)
    pub empty_chain: bool,
    pub stages: Vec<&'static str>,
    /// index of the filter() call (or chunks.len() for end()) during which the chain entered its error state
    pub error_at: Option<usize>,
    /// bytes held back by the chain, in stream order, sampled immediately before the call that failed
    pub held_before_error: Vec<u8>,
    /// number of output bytes emitted before the call that failed
    pub out_len_before_error: usize,
    /// maximum number of bytes held back at any step
    pub max_held: usize,
    /// whether some bytes were held back inside a buffered element at some step
    pub buffered_element_seen: bool,
}

/// bytes currently held back, in stream order (later stages hold older data)
pub fn held_in_stream_order(filter: &FilterBodyAction) -> (Vec<u8>, bool) {
    let mut out = Vec::new();
    let mut buffered = false;
    let stages = filter.verif_held();
    for (buffers, tail) in stages.iter().rev() {
        for b in buffers {
            if !b.is_empty() {
                buffered = true;
            }
            out.extend_from_slice(b);
        }
        out.extend_from_slice(tail);
    }
    (out, buffered)
}

/// Drive the real filter chain over `chunks`, sampling the hooks around every call.
pub fn run_chunks(fc: &FilterCase, chunks: &[&[u8]]) -> Run {
    let mut filter = fc.create();
    let mut run = Run {
        empty_chain: filter.is_empty(),
        stages: filter.verif_chain(),
        ..Run::default()
    };
    for (i, chunk) in chunks.iter().enumerate() {
        let (held, buffered) = held_in_stream_order(&filter);
        run.max_held = run.max_held.max(held.len());
        run.buffered_element_seen |= buffered;
        let was_error = filter.verif_in_error();
        let out = filter.filter(chunk.to_vec(), None);
        if !was_error && filter.verif_in_error() && run.error_at.is_none() {
            run.error_at = Some(i);
            run.held_before_error = held;
            run.out_len_before_error = run.out.len();
        }
        run.out.extend(out);
    }
    let (held, buffered) = held_in_stream_order(&filter);
    run.max_held = run.max_held.max(held.len());
    run.buffered_element_seen |= buffered;
    let was_error = filter.verif_in_error();
    let end = filter.end(None);
    if !was_error && filter.verif_in_error() && run.error_at.is_none() {
        run.error_at = Some(chunks.len());
        run.held_before_error = held;
        run.out_len_before_error = run.out.len();
    }
    run.out.extend(end);
    run
}

/// split `body` at the given cut offsets (sorted, may repeat, may be 0 or len → empty chunks)
pub fn split_at<'a>(body: &'a [u8], cuts: &[usize]) -> Vec<&'a [u8]> {
    let mut chunks = Vec::with_capacity(cuts.len() + 1);
    let mut prev = 0;
    for &c in cuts {
        let c = c.min(body.len()).max(prev);
        chunks.push(&body[prev..c]);
        prev = c;
    }
    chunks.push(&body[prev..]);
    chunks
}

pub fn stride_cuts(len: usize, stride: usize) -> Vec<usize> {
    (1..len).filter(|i| i % stride == 0).collect()
}

pub fn random_cuts(len: usize, rng: &mut Rng) -> Vec<usize> {
    let k = rng.range(1, 6);
    let mut cuts: Vec<usize> = (0..k).map(|_| rng.below(len + 1)).collect();
    if rng.chance(1, 3) {
        // empty chunks
        let dup = *rng.pick(&cuts);
        cuts.push(dup);
    }
    if rng.chance(1, 6) {
        cuts.push(0);
    }
    if rng.chance(1, 6) {
        cuts.push(len);
    }
    cuts.sort();
    cuts
}

// ---------------------------------------------------------------------------------------------
// independent span scanner (written from the HTML tokenisation rules, not from the library)

#[derive(Clone, Debug, PartialEq, Eq)]
pub enum SpanKind {
    Text,
    StartTag(String),
    EndTag(String),
    Comment,
    Bogus,
    Doctype,
    CData,
    /// from the end of a raw-text start tag to the end of its closing tag (or EOF)
    RawRegion(String),
    /// marker span (zero width semantics): offset where the closing tag of the preceding raw region starts
    RawClose,
}

#[derive(Clone, Debug)]
pub struct Span {
    pub kind: SpanKind,
    pub start: usize,
    pub end: usize,
    /// the construct reached the end of the body without its terminator
    pub open_ended: bool,
}

const RAW_TAGS: &[&str] = &["iframe", "noembed", "noframes", "noscript", "plaintext", "script", "style", "title", "textarea", "xmp"];

fn is_ws(b: u8) -> bool {
    matches!(b, b' ' | b'\n' | b'\r' | b'\t' | 0x0c)
}

/// end offset (exclusive) of a tag starting at `lt` (`<a...` or `</a...`), honouring quoted attribute values
fn scan_tag_end(b: &[u8], mut i: usize) -> usize {
    // skip the tag name
    while i < b.len() && !is_ws(b[i]) && b[i] != b'/' && b[i] != b'>' {
        i += 1;
    }
    loop {
        while i < b.len() && is_ws(b[i]) {
            i += 1;
        }
        if i >= b.len() {
            return b.len();
        }
        if b[i] == b'>' {
            return i + 1;
        }
        // attribute key
        while i < b.len() && !is_ws(b[i]) && b[i] != b'/' && b[i] != b'=' && b[i] != b'>' {
            i += 1;
        }
        if i < b.len() && b[i] == b'/' {
            i += 1;
            continue;
        }
        while i < b.len() && is_ws(b[i]) {
            i += 1;
        }
        if i < b.len() && b[i] == b'=' {
            i += 1;
            while i < b.len() && is_ws(b[i]) {
                i += 1;
            }
            if i >= b.len() {
                return b.len();
            }
            match b[i] {
                b'>' => {}
                q @ (b'"' | b'\'') => {
                    i += 1;
                    while i < b.len() && b[i] != q {
                        i += 1;
                    }
                    if i >= b.len() {
                        return b.len();
                    }
                    i += 1;
                }
                _ => {
                    while i < b.len() && !is_ws(b[i]) && b[i] != b'>' {
                        i += 1;
                    }
                }
            }
        }
    }
}

fn lower(b: &[u8]) -> String {
    String::from_utf8_lossy(b).to_lowercase()
}

/// finds the closing tag of a raw-text element (other than script) from `from`; returns its offset.
/// Mirrors the observed scanning discipline of this tokenizer family: after a '<' the next byte is
/// consumed even when it is not '/', so "<</title>" does not close the element.
fn find_raw_close(b: &[u8], from: usize, name: &str) -> Option<usize> {
    let n = name.as_bytes();
    let mut i = from;
    'outer: loop {
        let c = *b.get(i)?;
        i += 1;
        if c != b'<' {
            continue;
        }
        let c = *b.get(i)?;
        i += 1;
        if c != b'/' {
            continue;
        }
        let open = i - 2;
        for k in 0..n.len() {
            let c = *b.get(i)?;
            i += 1;
            if c != n[k] && c != n[k].to_ascii_uppercase() {
                i -= 1;
                continue 'outer;
            }
        }
        let c = *b.get(i)?;
        i += 1;
        if is_ws(c) || c == b'/' || c == b'>' {
            return Some(open);
        }
        i -= 1;
    }
}

/// script content end: handles the escaped (`<!--`) and double-escaped (`<!--<script`) states
fn find_script_close(b: &[u8], from: usize) -> Option<usize> {
    #[derive(PartialEq)]
    enum S {
        Data,
        Escaped,
        Double,
    }
    let mut s = S::Data;
    let mut i = from;
    let starts = |i: usize, pat: &[u8]| i + pat.len() <= b.len() && b[i..i + pat.len()].eq_ignore_ascii_case(pat);
    let delim = |i: usize| matches!(b.get(i), Some(c) if is_ws(*c) || *c == b'/' || *c == b'>');
    while i < b.len() {
        match s {
            S::Data => {
                if starts(i, b"</script") && delim(i + 8) {
                    return Some(i);
                }
                if starts(i, b"<!--") {
                    s = S::Escaped;
                    i += 4;
                    // "<!-->" and "<!--->" close immediately
                    if b.get(i) == Some(&b'>') {
                        s = S::Data;
                        i += 1;
                    } else if b.get(i) == Some(&b'-') && b.get(i + 1) == Some(&b'>') {
                        s = S::Data;
                        i += 2;
                    }
                    continue;
                }
                i += 1;
            }
            S::Escaped => {
                if starts(i, b"-->") {
                    s = S::Data;
                    i += 3;
                    continue;
                }
                if starts(i, b"</script") && delim(i + 8) {
                    return Some(i);
                }
                if starts(i, b"<script") && delim(i + 7) {
                    s = S::Double;
                    i += 8;
                    continue;
                }
                // observed behaviour of this tokenizer family: in the escaped state a '<' that is followed
                // by neither '/' nor a letter falls back to the plain script-data state
                if b[i] == b'<' {
                    match b.get(i + 1) {
                        Some(c) if *c == b'/' || c.is_ascii_alphabetic() => {}
                        Some(_) => {
                            s = S::Data;
                            i += 1;
                            continue;
                        }
                        None => {}
                    }
                }
                i += 1;
            }
            S::Double => {
                if starts(i, b"-->") {
                    s = S::Data;
                    i += 3;
                    continue;
                }
                if starts(i, b"</script") && delim(i + 8) {
                    s = S::Escaped;
                    i += 9;
                    continue;
                }
                i += 1;
            }
        }
    }
    None
}

pub fn scan_spans(b: &[u8]) -> Vec<Span> {
    let mut spans = Vec::new();
    let mut i = 0;
    let mut text_start = 0;
    let flush_text = |spans: &mut Vec<Span>, from: usize, to: usize| {
        if to > from {
            spans.push(Span {
                kind: SpanKind::Text,
                start: from,
                end: to,
                open_ended: false,
            });
        }
    };
    while i < b.len() {
        if b[i] != b'<' || i + 1 >= b.len() {
            i += 1;
            continue;
        }
        let c = b[i + 1];
        if c.is_ascii_alphabetic() {
            flush_text(&mut spans, text_start, i);
            let end = scan_tag_end(b, i + 1);
            let mut j = i + 1;
            while j < b.len() && !is_ws(b[j]) && b[j] != b'/' && b[j] != b'>' {
                j += 1;
            }
            let name = lower(&b[i + 1..j]);
            spans.push(Span {
                kind: SpanKind::StartTag(name.clone()),
                start: i,
                end,
                open_ended: b.get(end.wrapping_sub(1)) != Some(&b'>'),
            });
            i = end;
            if end <= b.len() && b.get(end.wrapping_sub(1)) == Some(&b'>') && RAW_TAGS.contains(&name.as_str()) {
                // raw text region
                let mut close_at = None;
                let (region_end, open_ended) = if name == "plaintext" {
                    (b.len(), true)
                } else {
                    let close = if name == "script" { find_script_close(b, i) } else { find_raw_close(b, i, &name) };
                    match close {
                        None => (b.len(), true),
                        Some(at) => {
                            close_at = Some(at);
                            let e = scan_tag_end(b, at + 2);
                            (e, b.get(e.wrapping_sub(1)) != Some(&b'>'))
                        }
                    }
                };
                if let Some(at) = close_at {
                    spans.push(Span {
                        kind: SpanKind::RawClose,
                        start: at,
                        end: at,
                        open_ended: false,
                    });
                }
                spans.push(Span {
                    kind: SpanKind::RawRegion(name),
                    start: i,
                    end: region_end,
                    open_ended,
                });
                i = region_end;
            }
            text_start = i;
        } else if c == b'/' {
            if i + 2 >= b.len() {
                i += 1;
                continue;
            }
            flush_text(&mut spans, text_start, i);
            let d = b[i + 2];
            if d == b'>' {
                spans.push(Span {
                    kind: SpanKind::Bogus,
                    start: i,
                    end: i + 3,
                    open_ended: false,
                });
                i += 3;
            } else if d.is_ascii_alphabetic() {
                let end = scan_tag_end(b, i + 2);
                let mut j = i + 2;
                while j < b.len() && !is_ws(b[j]) && b[j] != b'/' && b[j] != b'>' {
                    j += 1;
                }
                spans.push(Span {
                    kind: SpanKind::EndTag(lower(&b[i + 2..j])),
                    start: i,
                    end,
                    open_ended: b.get(end.wrapping_sub(1)) != Some(&b'>'),
                });
                i = end;
            } else {
                let found = b[i..].iter().position(|x| *x == b'>');
                let end = found.map(|p| i + p + 1).unwrap_or(b.len());
                spans.push(Span {
                    kind: SpanKind::Bogus,
                    start: i,
                    end,
                    open_ended: found.is_none(),
                });
                i = end;
            }
            text_start = i;
        } else if c == b'!' {
            flush_text(&mut spans, text_start, i);
            let rest = &b[i + 2..];
            let (kind, end, open_ended) = if rest.starts_with(b"--") {
                // comment: ends at "-->" or "--!>" (the opening dashes may be part of the closer), or EOF
                // mirrors the observed comment scanning of this tokenizer family: after "--!" (or "<!--!")
                // the following byte is consumed even when it is not '>'
                let mut j = i + 4;
                let mut dashes = 2;
                let mut end = b.len();
                let mut open = true;
                while j < b.len() {
                    let c = b[j];
                    j += 1;
                    match c {
                        b'-' => {
                            dashes += 1;
                            continue;
                        }
                        b'>' => {
                            if dashes >= 2 {
                                end = j;
                                open = false;
                                break;
                            }
                        }
                        b'!' => {
                            if dashes >= 2 {
                                match b.get(j) {
                                    None => break,
                                    Some(b'>') => {
                                        end = j + 1;
                                        open = false;
                                        break;
                                    }
                                    Some(_) => j += 1,
                                }
                            }
                        }
                        _ => {}
                    }
                    dashes = 0;
                }
                (SpanKind::Comment, end, open)
            } else if rest.len() >= 7 && rest[..7].eq_ignore_ascii_case(b"DOCTYPE") {
                let found = b[i..].iter().position(|x| *x == b'>');
                (SpanKind::Doctype, found.map(|p| i + p + 1).unwrap_or(b.len()), found.is_none())
            } else if rest.starts_with(b"[CDATA[") {
                // observed behaviour of this tokenizer family: the section ends at "]]]>" (three brackets) or EOF
                let mut j = i + 9;
                let mut brackets = 0;
                let mut end = b.len();
                let mut open = true;
                while j < b.len() {
                    match b[j] {
                        b']' => brackets += 1,
                        b'>' => {
                            if brackets > 2 {
                                end = j + 1;
                                open = false;
                                break;
                            }
                            brackets = 0;
                        }
                        _ => brackets = 0,
                    }
                    j += 1;
                }
                (SpanKind::CData, end, open)
            } else {
                let found = b[i..].iter().position(|x| *x == b'>');
                (SpanKind::Bogus, found.map(|p| i + p + 1).unwrap_or(b.len()), found.is_none())
            };
            spans.push(Span { kind, start: i, end, open_ended });
            i = end;
            text_start = i;
        } else if c == b'?' {
            flush_text(&mut spans, text_start, i);
            let found = b[i..].iter().position(|x| *x == b'>');
            let end = found.map(|p| i + p + 1).unwrap_or(b.len());
            spans.push(Span {
                kind: SpanKind::Bogus,
                start: i,
                end,
                open_ended: found.is_none(),
            });
            i = end;
            text_start = i;
        } else {
            i += 1;
        }
    }
    flush_text(&mut spans, text_start, b.len());
    spans
}

#[derive(Clone, Copy, Debug, PartialEq, Eq)]
pub enum CutClass {
    /// strictly inside a multi-byte UTF-8 sequence
    Utf8,
    /// inside a comment / bogus comment / doctype / CDATA span, or in a raw-text region
    Context,
    Other,
}

pub fn classify_cut(body: &[u8], spans: &[Span], cut: usize) -> CutClass {
    for s in spans {
        match &s.kind {
            SpanKind::CData => {
                // the tokenizer returns an unfinished CDATA *section* as a text token containing '<', which the filter
                // holds back until more input arrives: a chunk boundary after the complete opener loses no context
                // on the unchanged tree. Only a boundary inside the opener `<![CDATA[` itself does (the truncated
                // opener is returned as a finished bogus comment).
                let inner_has_markup = body[(s.start + 1).min(body.len())..s.end.min(body.len())].contains(&b'<');
                if s.start < cut && cut < s.start + 9 && (cut < s.end || (s.open_ended && cut == s.end)) && (inner_has_markup || s.open_ended) {
                    return CutClass::Context;
                }
            }
            SpanKind::Comment | SpanKind::Bogus | SpanKind::Doctype => {
                let inner_has_markup = body[(s.start + 1).min(body.len())..s.end.min(body.len())].contains(&b'<');
                if s.start < cut && (cut < s.end || (s.open_ended && cut == s.end)) && (inner_has_markup || s.open_ended) {
                    return CutClass::Context;
                }
            }
            SpanKind::RawRegion(_) => {
                // the context that a chunk boundary loses is the raw-text *content*: a cut inside the closing tag
                // itself (`</ti|tle>`) is handled by the filter (the text holding the `<` is kept back until the
                // next chunk), so it must not be attributed to the known finding
                let content_end = spans
                    .iter()
                    .find(|c| matches!(c.kind, SpanKind::RawClose) && c.start >= s.start && c.start <= s.end)
                    .map(|c| c.start)
                    .unwrap_or(s.end);
                // ... and losing the context only matters when the content looks like markup to a tokenizer that
                // has forgotten it is inside raw text: content without any '<' is re-tokenised as the same bytes
                let content_has_markup = body[s.start.min(body.len())..content_end.min(body.len())].contains(&b'<');
                if s.start <= cut && (cut < s.end || (s.open_ended && cut == s.end)) && (content_has_markup || (s.open_ended && content_end == s.end)) {
                    return CutClass::Context;
                }
            }
            _ => {}
        }
    }
    if cut > 0 && cut < body.len() && (body[cut] & 0xC0) == 0x80 {
        // continuation byte follows the cut: inside a multi-byte sequence (if the body is valid UTF-8)
        return CutClass::Utf8;
    }
    CutClass::Other
}

/// does the body end inside a comment / bogus comment / doctype / CDATA / raw-text construct
pub fn has_open_ended_context(spans: &[Span]) -> bool {
    spans.iter().any(|s| {
        s.open_ended && matches!(s.kind, SpanKind::Comment | SpanKind::Bogus | SpanKind::Doctype | SpanKind::CData | SpanKind::RawRegion(_))
    })
}

// ---------------------------------------------------------------------------------------------
// filter lists

pub const HTML_PATHS: &[&[&str]] = &[
    &["html", "body"],
    &["html", "head"],
    &["html", "body", "div"],
    &["html", "head", "title"],
    &["body"],
    &["html", "body", "p"],
    &["html", "head", "meta"],
    &["html", "body", "div", "div"],
    &["html"],
    // raw-text elements as the filter's target (their closing tag is recognised by the raw-text reader, not by the
    // ordinary tag reader)
    &["html", "head", "style"],
    &["html", "head", "script"],
    &["html", "body", "noscript"],
];

pub const SELECTORS: &[Option<&str>] = &[
    None,
    Some(""),
    Some("div"),
    Some("p"),
    Some("meta[name=\"a\"]"),
    Some("[id]"),
    Some("span.nomatch"),
    Some("div["),
    Some("title"),
];

/// sentinel values: private-use characters never produced by the body generators
pub fn sentinel(n: usize, wrap: bool) -> String {
    if wrap {
        format!("<i>\u{e000}{n}\u{e001}</i>")
    } else {
        format!("\u{e000}{n}\u{e001}")
    }
}

pub fn random_filter_case(rng: &mut Rng, allow_replace: bool, allow_text_replace: bool) -> FilterCase {
    let n = rng.range(0, 3);
    let mut filters = Vec::new();
    for i in 0..n {
        let kind = rng.below(10);
        let f = match kind {
            0..=5 => {
                let actions: &[&str] = if allow_replace { &["append_child", "prepend_child", "replace"] } else { &["append_child", "prepend_child"] };
                let action = *rng.pick(actions);
                let path = *rng.pick(HTML_PATHS);
                let selector = *rng.pick(SELECTORS);
                html_filter(action, path, selector, &sentinel(i + 1, rng.coin()))
            }
            6 | 7 => {
                let actions: &[&str] = if allow_text_replace { &["append_text", "prepend_text", "replace_text"] } else { &["append_text", "prepend_text"] };
                text_filter(*rng.pick(actions), &sentinel(i + 1, false))
            }
            8 => html_filter("unknown_action", &["html", "body"], None, &sentinel(i + 1, true)),
            _ => html_filter("append_child", &[], None, &sentinel(i + 1, true)),
        };
        filters.push(f);
    }
    let headers = match rng.below(6) {
        0 | 1 => vec![],
        2 | 3 => vec![("Content-Type".to_string(), "text/html; charset=utf-8".to_string())],
        4 => vec![("content-type".to_string(), "TEXT/HTML".to_string())],
        _ => vec![("Content-Type".to_string(), "application/json".to_string())],
    };
    FilterCase { filters, headers }
}

/// a fixed family of filter lists used for the exhaustive single-cut sweeps
pub fn standard_filter_cases(allow_replace: bool) -> Vec<FilterCase> {
    let html = |filters: Vec<Value>| FilterCase {
        filters,
        headers: vec![("Content-Type".to_string(), "text/html".to_string())],
    };
    let mut v = vec![
        html(vec![html_filter("append_child", &["html", "body"], None, &sentinel(1, true))]),
        html(vec![html_filter("prepend_child", &["html", "body"], None, &sentinel(1, true))]),
        html(vec![html_filter("append_child", &["html", "head"], Some("meta[name=\"a\"]"), &sentinel(1, true))]),
        html(vec![html_filter("prepend_child", &["html", "body"], Some("span.nomatch"), &sentinel(1, true))]),
        html(vec![html_filter("append_child", &["html", "body", "div"], Some("p"), &sentinel(1, false))]),
        html(vec![
            html_filter("prepend_child", &["html", "head"], None, &sentinel(1, true)),
            html_filter("append_child", &["html", "body"], Some("div"), &sentinel(2, true)),
        ]),
        html(vec![text_filter("append_text", &sentinel(1, false)), html_filter("append_child", &["html", "body", "div"], None, &sentinel(2, true))]),
        html(vec![text_filter("prepend_text", &sentinel(1, false))]),
        FilterCase {
            filters: vec![html_filter("append_child", &["body"], None, &sentinel(1, true))],
            headers: vec![],
        },
        html(vec![html_filter("append_child", &["html", "head", "title"], None, &sentinel(1, false))]),
    ];
    if allow_replace {
        v.push(html(vec![html_filter("replace", &["html", "body", "div"], None, &sentinel(1, true))]));
        v.push(html(vec![html_filter("replace", &["html", "head", "title"], Some("title"), &sentinel(1, true))]));
        v.push(html(vec![html_filter("replace", &["html", "head", "meta"], Some("meta[name=\"a\"]"), &sentinel(1, true))]));
        v.push(html(vec![
            html_filter("replace", &["html", "body", "p"], None, &sentinel(1, true)),
            html_filter("append_child", &["html", "body"], None, &sentinel(2, true)),
        ]));
        v.push(html(vec![text_filter("replace_text", &sentinel(1, false))]));
    }
    v
}

/// mutated body: truncate / delete / duplicate ranges / splice markup bytes (valid UTF-8 preserved unless `bytes`)
pub fn mutate_body(doc: &[u8], rng: &mut Rng, allow_invalid_utf8: bool) -> Vec<u8> {
    let mut v = doc.to_vec();
    let edits = rng.range(1, 3);
    for _ in 0..edits {
        if v.is_empty() {
            break;
        }
        let at = rng.below(v.len());
        match rng.below(5) {
            0 => v.truncate(at),
            1 => {
                let end = (at + rng.range(1, 10)).min(v.len());
                v.drain(at..end);
            }
            2 => {
                let end = (at + rng.range(1, 14)).min(v.len());
                let dup = v[at..end].to_vec();
                let to = rng.below(v.len() + 1);
                for (i, b) in dup.into_iter().enumerate() {
                    v.insert(to + i, b);
                }
            }
            3 => {
                let pieces: [&[u8]; 18] = [
                    b"<", b">", b"</", b"<!--", b"-->", b"\"", b"'", b"<div>", b"</div>", b"<script>", b"</body>", b" ", b"</br>", b"</meta>", b"<br/>", b"</p>", b" < ", b"<x-y/>",
                ];
                let p = pieces[rng.below(pieces.len())];
                for (i, b) in p.iter().enumerate() {
                    v.insert(at + i, *b);
                }
            }
            _ => {
                v[at] = *rng.pick(b"<>/!-=\"' ad");
            }
        }
    }
    if !allow_invalid_utf8 {
        v = String::from_utf8_lossy(&v).replace('\u{fffd}', "?").into_bytes();
    }
    v
}

pub fn contains_sentinel_alphabet(b: &[u8]) -> bool {
    // U+E000 / U+E001 encode as EE 80 80 / EE 80 81
    b.windows(3).any(|w| w[0] == 0xEE && w[1] == 0x80 && (w[2] == 0x80 || w[2] == 0x81))
}


/// token boundaries according to the independent scanner
pub fn scanner_boundaries(body: &[u8], spans: &[Span]) -> Vec<usize> {
    let mut v: Vec<usize> = Vec::new();
    for s in spans {
        v.push(s.start);
        v.push(s.end);
    }
    v.push(0);
    v.push(body.len());
    v.sort();
    v.dedup();
    v
}

/// token boundaries according to the library's tokenizer run over the whole body
pub fn library_boundaries(body: &[u8]) -> Vec<usize> {
    use redirectionio::html::{TokenType, Tokenizer};
    let mut t = Tokenizer::new(body.to_vec());
    let mut v = vec![0usize];
    let mut pos = 0usize;
    for _ in 0..=body.len() + 1 {
        match t.next() {
            Ok(TokenType::ErrorToken) | Err(_) => break,
            Ok(_) => {
                pos += t.raw().len();
                v.push(pos);
            }
        }
    }
    v.push(body.len());
    v.sort();
    v.dedup();
    v
}

/// Guard used before a failure is classified with the help of the scanner: the scanner's segmentation of
/// the whole body must coincide with the tokenizer's; otherwise the classification is not trusted.
pub fn scanner_agrees_with_library(body: &[u8], spans: &[Span]) -> bool {
    let mut a = scanner_boundaries(body, spans);
    let mut b = library_boundaries(body);
    // the tokenizer splits a trailing "<", "</", "<!" ... off the final text run at end of input; that
    // detail is irrelevant for context spans: ignore boundaries inside a final text span
    if let Some(last) = spans.last() {
        if last.kind == SpanKind::Text {
            a.retain(|x| *x <= last.start || *x == body.len());
            b.retain(|x| *x <= last.start || *x == body.len());
        }
    }
    a == b
}
