//! Hand-written hostile HTML corpus shared by the body-filter and tokenizer monitors.

pub const DOCS: &[&str] = &[
    // plain well-formed
    "<html><head><title>t</title></head><body><div>Yolo</div></body></html>",
    "<!DOCTYPE html>\n<html>\n    <head>\n    </head>\n    <body>\n    </body>\n</html>",
    "<html><head><meta charset=\"utf-8\"><link rel=x href=y></head><body class=\"page\"><p>a</p><p>b</p></body></html>",
    "<HTML><HEAD><TITLE>Up</TITLE></HEAD><BODY><DIV>Upper</DIV></BODY></HTML>",
    "<html><body><div><div><div>deep</div></div></div></body></html>",
    "<html><head></head><body><ul><li>1<li>2<li>3</ul></body></html>",
    "<html><body><p>one<p>two<p>three</body></html>",
    "<html><body><br><img src=a.png><input type=text><hr/></body></html>",
    "<html><body><svg><path d=\"M0 0\"/></svg><br/></body></html>",
    // attributes, quoting styles
    "<html><body><a href='x' title=\"y\" data-z=w hidden>link</a></body></html>",
    "<html><body><div class = \"a b\" id= 'c' data-x =y>q</div></body></html>",
    "<html><body><div a=\"<b>\" c='</body>'>attr with markup</div></body></html>",
    "<html><body><div a=\">\" b='>'>gt in attr</div></body></html>",
    "<html><body><input value=\"a > b\" disabled/></body></html>",
    "<html><body><div data-json='{\"k\":\"<html><body>\"}'>x</div></body></html>",
    // scripts with tag-like strings
    "<html><head><script>var a = \"<body>\"; var b = '</body>';</script></head><body>x</body></html>",
    "<html><head><script>if (a < b && c > d) { document.write('<div>'); }</script></head><body><div>r</div></body></html>",
    "<html><head><script><!-- var x = '<script>'; // --></script></head><body>y</body></html>",
    "<html><head><script><!--<script>document.write('</script>')</script>--></script></head><body>z</body></html>",
    "<html><head><script type=\"text/template\"><html><head></head><body><div></div></body></html></script></head><body><div>real</div></body></html>",
    "<html><head><SCRIPT>var s = '</BODY>';</SCRIPT></head><body>u</body></html>",
    "<html><head><script>a</scriptx>b</script ></head><body>v</body></html>",
    "<html><head><script src=x></script><script>1<2</script></head><body>w</body></html>",
    // style / title / textarea / others (raw text / rcdata)
    "<html><head><style>body > div { color: red } /* </body> */</style></head><body><div>s</div></body></html>",
    "<html><head><title><body> in title </title></head><body>t</body></html>",
    "<html><body><textarea><div></body></html></textarea><div>after</div></body></html>",
    "<html><body><xmp><body><div></xmp><div>k</div></body></html>",
    "<html><body><noscript><div>ns</div></noscript><iframe><body></iframe></body></html>",
    "<html><body><div>before</div><plaintext><div></body></html> everything is text",
    // comments
    "<html><!-- <body> --><body><!-- </body> --><div>c</div></body></html>",
    "<html><body><!----><!---><!-- a -- b --><!--x--!><div>c2</div></body></html>",
    "<html><body><!-- unterminated <div> </body></html>",
    "<html><body><!></body></html>",
    "<html><body><?php echo '<body>'; ?><div>pi</div></body></html>",
    "<html><body></ bogus><//><div>bogus</div></body></html>",
    // doctype, cdata
    "<!doctype html><html><body><div>d</div></body></html>",
    "<!DOCTYPE html PUBLIC \"-//W3C//DTD <body> XHTML//EN\"><html><body>d2</body></html>",
    "<html><head><![CDATA[ <body> ]]></head><body><div>cd</div></body></html>",
    "<html><body><![CDATA[x]]]><div>cd2</div></body></html>",
    // '<' in text
    "<html><body>1 < 2 and 3 <4 and a<b</body></html>",
    "<html><body><div>a <- b << c <= d</div><</body></html>",
    "<html><body>text <",
    "<html><body>text </",
    "<html><body>text <d",
    "<html><body>text <div cla",
    "<html><body>text <div class=\"a",
    "<html><body>text <!-",
    "<html><body>text <!-- open",
    "<html><body>text <scr",
    "<html><body><script>var a = 1; <",
    "<html><body><script>var a = 1; </scr",
    "<html><body><div>unterminated",
    "<html><body><div></div></bod",
    "<html><head><title>unterminated title",
    // omitted / mismatched end tags
    "<html><body><div><span>a</div></span><div>b</div></body></html>",
    "<html><body></div></div><div>extra ends</div></body></html>",
    "<html><body><div>no end tags",
    "<body><div>no html element</div></body>",
    "<html><div>div outside body</div><body><div>in</div></body></html>",
    "<html><body><body><div>twice</div></body></body></html>",
    "<html><head></head><body><div id=1></div><div id=2></div><div id=3><div id=4></div></div></body></html>",
    "<html><head><meta name=a><meta name=b content=c></head><body><meta name=inbody></body></html>",
    "<html><head><title>a</title><title>b</title></head><body></body></html>",
    // utf-8
    "<html><body><div>caf\u{e9} \u{65e5}\u{672c} \u{1f355} \u{27a1}\u{fe0f}</div></body></html>",
    "<html><body><div title=\"\u{e9}\u{e9}\">\u{1f355}</div><\u{e9}></body></html>",
    "<html><b\u{f6}dy><div>\u{e9}</div></b\u{f6}dy></html>",
    "\u{feff}<html><body>bom</body></html>",
    // entities / misc
    "<html><body>&lt;body&gt; &amp; &#60;div&#62;</body></html>",
    "<html><body>\n\t<div\n\tclass=\"x\"\n>\r\nmultiline\n</div\n>\n</body\t></html >",
    "<html><body><div/>self closing div<span/></body></html>",
    "<html><body><a/b/c=d/>slashes</body></html>",
    "<html><body><div =x =\"y\">weird attrs</div></body></html>",
    "<html ><body  ><div   >spaces</div   ></body  ></html >",
    "",
    "just text, no markup at all",
    "<",
    ">",
    "<>",
    "</>",
    "<html>",
    "<html><body>",
    "<html><body></body>",
    "</html></body>",
    "<html><head></head><body></body></html><!-- trailing --><div>after html</div>",
    // the last Unicode planes (lead byte 0xF4) and the maximal code point, next to targets of the standard filters
    "<html><head><title>\u{10ffff}</title></head><body><div>\u{100000}x\u{10fffd}</div><p>a\u{10ffff}</p>1 < 2</body></html>",
    // unquoted attribute values with non-ASCII characters (continuation bytes 0x85 / 0xA0 among them)
    "<html><body><div title=\u{e0}b lang=\u{c5}\u{445} data-x=\u{5168}\u{a0}y class=\u{e9}>unquoted</div><a href=/x\u{e0}>l</a></body></html>",
    // custom elements whose names start like raw-text elements
    "<html><head><title>t</title></head><body><title-bar><div>x</div></title-bar><style-guide><p>y</p></style-guide><script-x><div>z</div></script-x><div>real</div></body></html>",
    // explicit end tags of void elements, stray end tags (common in hand-written and generated pages)
    "<html><head><meta charset=utf-8></meta><title>t</title><link rel=x></link></head><body><div>a</br>b<br></br>c</div><p>x</p></img></body></html>",
    "<html><body></div></span><div>x</p></div></body></body></html></html>",
    "<html><head><meta name=\"a\" content=\"b\"></meta></head><body><div><hr/></hr>text<input></input></div><div>second</br></div></body></html>",
    "<html><body><div>1 < 2 and 3 > 2, a<b, x <= y</div><p>if (a<b) { caf\u{e9} }</p></body></html>",
    "<html><head><base href=/><script>x</script><style>y</style></head><body><main><article><section><h1>T</h1><p>P <em>e</em> <a href=#>l</a></p></section></article></main><footer>f</footer></body></html>",
    // raw-text elements with plain content (no markup-looking text): targets of filters in their own right
    "<html><head><style>p { color: red }</style><script>var a = 1;</script><title>plain</title></head><body><noscript>no script</noscript><div>x</div><script>var b = 2;</script></body></html>",
    "<html><head><STYLE>p{}</STYLE><script src=a.js></script></head><body><noscript></noscript><iframe>frame text</iframe><xmp>x m p</xmp></body></html>",
    // two documents one after the other (an error page appended by a gateway): the root element occurs again after
    // it was closed
    "<html><head><title>one</title></head><body><div>first</div></body></html>\n<html><head><title>two</title></head><body><div>second</div></body></html>",
    "<html><body><p>a</p></body></html><html><body><p>b</p></body></html><!-- end -->",
];

pub fn html_documents() -> Vec<Vec<u8>> {
    DOCS.iter().map(|d| d.as_bytes().to_vec()).collect()
}
