//! DOM generator with a reference edit (C15) — the generator builds a tree, so the expected output of
//! an HTML filter is known without parsing. Every node keeps its source text.

use crate::prng::Rng;
use serde::{Deserialize, Serialize};

#[derive(Clone, Debug, Serialize, Deserialize, PartialEq, Eq)]
pub enum Kind {
    Normal,
    Void,
    SelfClosing,
}

#[derive(Clone, Debug, Serialize, Deserialize, PartialEq, Eq)]
pub struct El {
    /// tag as written in the source (may be upper-case)
    pub tag: String,
    /// (name as written, value, quote style: 0 none, 1 double, 2 single, 3 valueless)
    pub attrs: Vec<(String, String, u8)>,
    /// extra whitespace inside the tags (source fidelity)
    pub ws: String,
    pub kind: Kind,
    pub children: Vec<Node>,
    /// end tag as written ("</DIV >")
    pub end: String,
}

#[derive(Clone, Debug, Serialize, Deserialize, PartialEq, Eq)]
pub enum Node {
    El(El),
    /// text / comment / raw source, emitted verbatim
    Raw(String),
    /// a sequence of nodes (values with several roots)
    Frag(Vec<Node>),
}

impl El {
    pub fn name(&self) -> String {
        self.tag.to_lowercase()
    }

    pub fn start_tag(&self) -> String {
        let mut s = format!("<{}", self.tag);
        // the separator between the tag name / attributes varies with the element (a deterministic function of its
        // fields, so that the source text of a node never changes): space, tab, LF, or CRLF + indentation as editors
        // on Windows write multi-line tags
        let sep = match (self.tag.len() * 7 + self.attrs.len() * 3 + self.attrs.iter().map(|(n, v, _)| n.len() + v.len()).sum::<usize>()) % 7 {
            0 => "\r\n    ",
            1 => "\n",
            2 => "\t",
            _ => " ",
        };
        for (n, v, q) in &self.attrs {
            s.push_str(sep);
            match q {
                0 => s.push_str(&format!("{n}={v}")),
                1 => s.push_str(&format!("{n}=\"{v}\"")),
                2 => s.push_str(&format!("{n}='{v}'")),
                _ => s.push_str(n),
            }
        }
        s.push_str(&self.ws);
        match self.kind {
            Kind::SelfClosing => s.push_str("/>"),
            _ => s.push('>'),
        }
        s
    }

    pub fn serialize(&self, out: &mut String) {
        out.push_str(&self.start_tag());
        if self.kind == Kind::Normal {
            for c in &self.children {
                c.serialize(out);
            }
            out.push_str(&self.end);
        }
    }
}

impl Node {
    pub fn serialize(&self, out: &mut String) {
        match self {
            Node::El(e) => e.serialize(out),
            Node::Raw(s) => out.push_str(s),
            Node::Frag(v) => {
                for n in v {
                    n.serialize(out);
                }
            }
        }
    }

    pub fn to_string(&self) -> String {
        let mut s = String::new();
        self.serialize(&mut s);
        s
    }
}

// ---------------------------------------------------------------------------------------------
// selectors (grammar: tag, [attr], [attr="v"], tag[attr="v"])

#[derive(Clone, Debug, Serialize, Deserialize, PartialEq, Eq)]
pub struct Selector {
    pub tag: Option<String>,
    pub attr: Option<(String, Option<String>)>,
}

impl Selector {
    pub fn text(&self) -> String {
        let mut s = self.tag.clone().unwrap_or_default();
        if let Some((a, v)) = &self.attr {
            match v {
                None => s.push_str(&format!("[{a}]")),
                Some(v) => s.push_str(&format!("[{a}=\"{v}\"]")),
            }
        }
        s
    }

    /// `structural_visible = false` models a selector engine that never sees head / body elements
    /// (a fragment parse drops those tags; the attributes of an <html> tag are merged into the fragment root)
    pub fn matches_with(&self, e: &El, structural_visible: bool) -> bool {
        if !structural_visible && matches!(e.name().as_str(), "head" | "body") {
            return false;
        }
        self.matches(e)
    }

    pub fn matches(&self, e: &El) -> bool {
        if let Some(t) = &self.tag {
            if e.name() != *t {
                return false;
            }
        }
        if let Some((a, v)) = &self.attr {
            let found = e.attrs.iter().find(|(n, _, _)| n.to_lowercase() == *a);
            match (found, v) {
                (None, _) => return false,
                (Some(_), None) => {}
                (Some((_, val, q)), Some(want)) => {
                    let actual = if *q == 3 { "" } else { val.as_str() };
                    if actual != want {
                        return false;
                    }
                }
            }
        }
        true
    }

    pub fn matches_subtree(&self, e: &El, structural_visible: bool) -> bool {
        if self.matches_with(e, structural_visible) {
            return true;
        }
        e.children.iter().any(|c| self.matches_node(c, structural_visible))
    }

    pub fn matches_node(&self, n: &Node, structural_visible: bool) -> bool {
        match n {
            Node::El(c) => self.matches_subtree(c, structural_visible),
            Node::Raw(_) => false,
            Node::Frag(v) => v.iter().any(|c| self.matches_node(c, structural_visible)),
        }
    }
}

// ---------------------------------------------------------------------------------------------
// filters and the reference edit

#[derive(Clone, Debug, Serialize, Deserialize, PartialEq, Eq)]
pub struct DomFilter {
    pub action: String, // append_child | prepend_child | replace
    pub path: Vec<String>,
    /// None = absent, Some(None) = empty string selector, Some(Some(sel))
    pub selector: Option<Option<Selector>>,
    /// value subtree (its source is the filter value)
    pub value: Node,
}

impl DomFilter {
    pub fn selector_text(&self) -> Option<String> {
        match &self.selector {
            None => None,
            Some(None) => Some(String::new()),
            Some(Some(s)) => Some(s.text()),
        }
    }

    fn effective_selector(&self) -> Option<&Selector> {
        match &self.selector {
            Some(Some(s)) => Some(s),
            _ => None,
        }
    }
}

#[derive(Default, Debug)]
pub struct EditTrace {
    /// false: html / head / body elements are invisible to selectors (known-finding variant)
    pub structural_invisible: bool,
    pub edits: u32,
    pub selector_decisions: u32,
    pub targets_seen: u32,
}

/// apply one filter to the tree rooted at `nodes` (reference semantics from the statement)
pub fn reference_edit(nodes: &mut Vec<Node>, f: &DomFilter, trace: &mut EditTrace) {
    edit_level(nodes, f, 0, trace);
}

fn edit_level(nodes: &mut Vec<Node>, f: &DomFilter, depth: usize, trace: &mut EditTrace) {
    let want = &f.path[depth];
    let last = depth + 1 == f.path.len();
    let mut i = 0;
    while i < nodes.len() {
        let is_target = matches!(&nodes[i], Node::El(e) if e.name() == *want);
        if is_target {
            if last {
                trace.targets_seen += 1;
                let sel = f.effective_selector();
                let matched = match (&nodes[i], sel) {
                    (Node::El(e), Some(s)) => {
                        trace.selector_decisions += 1;
                        Some(s.matches_subtree(e, !trace.structural_invisible))
                    }
                    _ => None,
                };
                match f.action.as_str() {
                    "replace" => {
                        if matched.unwrap_or(true) {
                            nodes[i] = f.value.clone();
                            trace.edits += 1;
                        }
                    }
                    "append_child" => {
                        if !matched.unwrap_or(false) {
                            if let Node::El(e) = &mut nodes[i] {
                                e.children.push(f.value.clone());
                                trace.edits += 1;
                            }
                        }
                    }
                    "prepend_child" => {
                        if !matched.unwrap_or(false) {
                            if let Node::El(e) = &mut nodes[i] {
                                e.children.insert(0, f.value.clone());
                                trace.edits += 1;
                            }
                        }
                    }
                    _ => {}
                }
            } else if let Node::El(e) = &mut nodes[i] {
                edit_level(&mut e.children, f, depth + 1, trace);
            }
        } else if depth == 0 {
            // the first path element may sit anywhere below the root (e.g. path ["body"])
            if let Node::El(e) = &mut nodes[i] {
                edit_level(&mut e.children, f, depth, trace);
            }
        }
        i += 1;
    }
}

// ---------------------------------------------------------------------------------------------
// generation

const FILLER_TAGS: &[&str] = &["span", "em", "a", "h2", "li", "p", "strong", "small", "label"];
const PATH_INNER_TAGS: &[&str] = &["div", "section", "article", "ul", "h1", "main", "nav"];
const VOID_TAGS: &[&str] = &["br", "img", "input", "hr"];
const TEXTS: &[&str] = &[
    "hello", "a &amp; b", "&lt;tag&gt;", "caf\u{e9}", "\u{65e5}\u{672c}", " ", "\n  ", "1 &lt; 2", "x &#60; y", "plain text with spaces", "\u{1f355}", "it's \"quoted\"",
];
const COMMENTS: &[&str] = &["<!-- note -->", "<!---->", "<!-- a - b -->", "<!--[if IE]>x<![endif]-->"];

fn maybe_upper(tag: &str, rng: &mut Rng) -> String {
    if rng.chance(1, 6) {
        tag.to_uppercase()
    } else {
        tag.to_string()
    }
}

fn random_attrs(rng: &mut Rng) -> Vec<(String, String, u8)> {
    let n = match rng.below(4) {
        0 | 1 => 0,
        2 => 1,
        _ => rng.range(2, 3),
    };
    let names = ["class", "id", "data-x", "title", "hidden", "DATA-Y", "lang"];
    // (a quoted attribute value may contain '>': the start tag ends at the first '>' *outside* quotes)
    let values = ["a", "b c", "x1", "page", "en", "k-v", "", "w>800", "if (a>b) go()"];
    let mut out: Vec<(String, String, u8)> = Vec::new();
    for _ in 0..n {
        let name = rng.pick(&names).to_string();
        if out.iter().any(|(n, _, _)| n.to_lowercase() == name.to_lowercase()) {
            continue;
        }
        let mut value = rng.pick(&values).to_string();
        let mut q = rng.below(4) as u8;
        if q == 0 && (value.is_empty() || value.contains(' ') || value.contains('>')) {
            q = 1;
        }
        if q == 3 {
            value = String::new();
        }
        out.push((name, value, q));
    }
    out
}

pub fn element(tag: &str, rng: &mut Rng, children: Vec<Node>) -> El {
    let written = maybe_upper(tag, rng);
    El {
        end: format!("</{}{}>", if rng.chance(1, 8) { written.to_lowercase() } else { written.clone() }, if rng.chance(1, 10) { " " } else { "" }),
        tag: written,
        attrs: random_attrs(rng),
        ws: if rng.chance(1, 8) { " ".to_string() } else { String::new() },
        kind: Kind::Normal,
        children,
    }
}

fn void_element(tag: &str, rng: &mut Rng) -> El {
    let mut e = element(tag, rng, vec![]);
    e.kind = if rng.chance(1, 3) { Kind::SelfClosing } else { Kind::Void };
    if e.kind == Kind::SelfClosing && e.ws.is_empty() && e.attrs.iter().any(|(_, _, q)| *q == 0) {
        // "<img src=a/>" would make the slash part of the unquoted value
        e.ws = " ".to_string();
    }
    e.end = String::new();
    e
}

/// element with fixed source (no random attributes), e.g. <title>t</title>
pub fn plain_element(tag: &str, attrs: &[(&str, &str, u8)], kind: Kind, content: Option<&str>) -> El {
    El {
        tag: tag.to_string(),
        attrs: attrs.iter().map(|(n, v, q)| (n.to_string(), v.to_string(), *q)).collect(),
        ws: String::new(),
        children: content.map(|c| vec![Node::Raw(c.to_string())]).unwrap_or_default(),
        end: if kind == Kind::Normal { format!("</{tag}>") } else { String::new() },
        kind,
    }
}

/// filler content that never uses the forbidden tags
pub fn filler(rng: &mut Rng, depth: usize, forbidden: &[String], safe: bool) -> Vec<Node> {
    let n = rng.range(0, 3);
    let mut out = Vec::new();
    for _ in 0..n {
        match rng.below(10) {
            0..=3 => out.push(Node::Raw(rng.pick(TEXTS).to_string())),
            4 => out.push(Node::Raw(rng.pick(COMMENTS).to_string())),
            5 => out.push(Node::El(void_element(*rng.pick(VOID_TAGS), rng))),
            6 if !safe => {
                let (tag, content) = *rng.pick(&[("script", "var a = 1;"), ("script", "if (a < b) { x('<div>'); }"), ("style", "p > a { color: red }"), ("script", "\"</div>\"")]);
                out.push(Node::El(plain_element(tag, &[], Kind::Normal, Some(content))));
            }
            6 => {
                let (tag, content) = *rng.pick(&[("script", "var a = 1;"), ("style", "p { color: red }")]);
                out.push(Node::El(plain_element(tag, &[], Kind::Normal, Some(content))));
            }
            7 if rng.chance(1, 3) => {
                // inline SVG: self-closing elements that are not HTML void elements, at depth 1 and 2
                let mut svg = plain_element("svg", &[("viewBox", "0 0 4 4", 1)], Kind::Normal, None);
                let mut g = plain_element("g", &[], Kind::Normal, None);
                g.children = vec![Node::El(plain_element("circle", &[("r", "1", 1)], Kind::SelfClosing, None))];
                svg.children = vec![Node::El(plain_element("path", &[("d", "M0 0h4", 1)], Kind::SelfClosing, None))];
                if rng.coin() {
                    svg.children.push(Node::El(g));
                }
                out.push(Node::El(svg));
            }
            _ => {
                let candidates: Vec<&&str> = FILLER_TAGS.iter().filter(|t| !forbidden.contains(&t.to_string())).collect();
                let tag = **rng.pick(&candidates);
                let children = if depth < 3 { filler(rng, depth + 1, forbidden, safe) } else { vec![] };
                out.push(Node::El(element(tag, rng, children)));
            }
        }
    }
    out
}

pub fn value_subtree(rng: &mut Rng, n: usize) -> Node {
    let mark = format!("\u{e000}{n}\u{e001}");
    match rng.below(4) {
        0 => Node::Raw(mark),
        1 => {
            let mut e = element("i", rng, vec![Node::Raw(mark)]);
            e.attrs = vec![("class".to_string(), "ins".to_string(), 1)];
            Node::El(e)
        }
        2 => {
            let inner = element("em", rng, vec![Node::Raw(mark)]);
            let mut e = element("b", rng, vec![Node::El(inner), Node::Raw("tail".to_string())]);
            e.attrs = vec![("data-x".to_string(), "x1".to_string(), 1), ("id".to_string(), format!("v{n}"), 0)];
            Node::El(e)
        }
        _ => Node::Frag(vec![
            Node::El(plain_element("i", &[], Kind::Normal, Some(&mark))),
            Node::El(plain_element("b", &[], Kind::Normal, Some("two roots"))),
        ]),
    }
}

#[derive(Clone, Debug, Serialize, Deserialize)]
pub struct Doc {
    /// the innermost chain element has sibling occurrences: only replace may target it
    #[serde(default)]
    pub repeated_innermost: bool,
    pub nodes: Vec<Node>,
    /// tags planted as path chain below html (e.g. ["body","div","section"] or ["head","title"])
    pub chain: Vec<String>,
}

impl Doc {
    pub fn source(&self) -> String {
        let mut s = String::new();
        for n in &self.nodes {
            n.serialize(&mut s);
        }
        s
    }
}

/// `safe`: no markup-looking text inside scripts / comments (for monitors that must stay clear of C03-K1)
pub fn random_doc(rng: &mut Rng, safe: bool) -> Doc {
    // chain below html
    let in_head = rng.chance(1, 5);
    let mut chain: Vec<String> = Vec::new();
    let mut forbidden: Vec<String> = vec!["html".into(), "head".into(), "body".into()];
    if in_head {
        chain.push("head".into());
        chain.push(rng.pick(&["title", "meta"]).to_string());
    } else {
        chain.push("body".into());
        let depth = rng.below(3);
        let mut tags: Vec<&str> = PATH_INNER_TAGS.to_vec();
        rng.shuffle(&mut tags);
        for t in tags.into_iter().take(depth) {
            chain.push(t.to_string());
        }
    }
    forbidden.extend(chain.iter().cloned());
    forbidden.extend(PATH_INNER_TAGS.iter().filter(|t| rng.chance(1, 2) && !chain.contains(&t.to_string())).map(|t| t.to_string()));

    // head
    let mut head_children: Vec<Node> = Vec::new();
    if in_head && chain[1] == "title" {
        let title_text = rng.pick(&["Title", "a &amp; b", ""]).to_string();
        let mut t = element("title", rng, vec![Node::Raw(title_text)]);
        t.attrs.clear();
        head_children.push(Node::El(t));
        head_children.push(Node::El(plain_element("link", &[("rel", "x", 0), ("href", "y", 0)], Kind::Void, None)));
    } else if in_head {
        // replace targets: repeated sibling metas, void and self-closing
        let n = rng.range(1, 3);
        for i in 0..n {
            let mut m = void_element("meta", rng);
            m.attrs = vec![("name".to_string(), ["a", "b", "c"][i % 3].to_string(), (i % 3) as u8 % 3), ("content".to_string(), "v".to_string(), 1)];
            if m.kind == Kind::SelfClosing {
                m.ws = " ".to_string();
            }
            head_children.push(Node::El(m));
            if rng.coin() {
                head_children.push(Node::Raw("\n    ".to_string()));
            }
        }
        head_children.push(Node::El(plain_element("link", &[("rel", "x", 0), ("href", "y", 0)], Kind::Void, None)));
    } else {
        head_children.push(Node::El(plain_element("title", &[], Kind::Normal, Some("t"))));
        if rng.coin() {
            head_children.push(Node::El(plain_element("meta", &[("charset", "utf-8", 1)], Kind::Void, None)));
        }
        if rng.coin() && !safe {
            head_children.push(Node::El(plain_element("script", &[], Kind::Normal, Some("var s = '</body>';"))));
        }
    }
    let mut head = element("head", rng, head_children);
    head.attrs.clear();

    // body with the planted chain (built from the innermost element outwards)
    let mut inner: Vec<Node> = filler(rng, 1, &forbidden, safe);
    let mut repeated_innermost = false;
    if !in_head {
        let below_body: Vec<String> = chain[1..].to_vec();
        for (k, tag) in below_body.iter().enumerate().rev() {
            let e = element(tag, rng, std::mem::take(&mut inner));
            let mut siblings = filler(rng, 2, &forbidden, safe);
            let at = rng.below(siblings.len() + 1);
            siblings.insert(at, Node::El(e));
            if !safe && rng.chance(1, 8) {
                // a raw-text element (noscript, noembed, noframes, xmp, iframe) next to the chain element whose text
                // looks like another occurrence of it: raw text is not markup, the path does not run through it
                let raw_tag = *rng.pick(&["noscript", "noembed", "noframes", "xmp", "iframe", "NoScript", "script", "script"]);
                let text = if raw_tag == "script" {
                    // legacy inline script: an HTML comment opener, a nested script element and, after the nested end
                    // tag, strings that look like the chain element (script data double-escaped state: the nested
                    // end tag does not end the script)
                    format!("<!-- <script src=\"n.js\"></script> document.write(\"<{tag} class='js'>x</{tag}>\"); //-->")
                } else {
                    format!("<{tag} class=\"raw\">in raw text</{tag}><img src=\"p.gif\">")
                };
                let at = rng.below(siblings.len() + 1);
                siblings.insert(at, Node::El(plain_element(raw_tag, &[], Kind::Normal, Some(&text))));
            }
            if k + 1 == below_body.len() && rng.chance(1, 4) {
                // repeated sibling occurrences of the innermost element (replace targets)
                repeated_innermost = true;
                for _ in 0..rng.range(1, 2) {
                    let twin = if rng.chance(1, 3) {
                        let mut v = element(tag, rng, vec![]);
                        v.kind = Kind::SelfClosing;
                        v.end = String::new();
                        if v.attrs.iter().any(|(_, _, q)| *q == 0) {
                            v.ws = " ".to_string();
                        }
                        v
                    } else {
                        let content = filler(rng, 3, &forbidden, safe);
                        element(tag, rng, content)
                    };
                    let at = rng.below(siblings.len() + 1);
                    siblings.insert(at, Node::El(twin));
                }
            }
            inner = siblings;
        }
    }
    let mut body = element("body", rng, inner);
    if rng.coin() {
        body.attrs = vec![("class".to_string(), "page".to_string(), 1)];
    }
    let between = if rng.coin() { "\n" } else { "" }.to_string();
    let mut html = element("html", rng, vec![Node::El(head), Node::Raw(between), Node::El(body)]);
    if rng.coin() {
        html.attrs = vec![("lang".to_string(), "en".to_string(), 1)];
    }
    let mut nodes = Vec::new();
    if rng.coin() {
        nodes.push(Node::Raw("<!DOCTYPE html>\n".to_string()));
    }
    nodes.push(Node::El(html));
    if rng.chance(1, 4) {
        nodes.push(Node::Raw("\n".to_string()));
    }
    Doc {
        repeated_innermost: repeated_innermost || (in_head && chain[1] == "meta"),
        nodes,
        chain,
    }
}

pub fn random_selector(rng: &mut Rng) -> Option<Option<Selector>> {
    match rng.below(8) {
        0 | 1 => None,
        2 => Some(None),
        _ => {
            let tags = ["span", "em", "a", "p", "i", "b", "li", "meta", "title", "img", "strong", "nomatch"];
            let attrs = ["class", "id", "data-x", "title", "hidden", "name"];
            let values = ["a", "x1", "page", "ins", "b c", "zz"];
            let tag = if rng.chance(2, 3) { Some(rng.pick(&tags).to_string()) } else { None };
            let attr = if tag.is_none() || rng.coin() {
                Some((rng.pick(&attrs).to_string(), if rng.coin() { Some(rng.pick(&values).to_string()) } else { None }))
            } else {
                None
            };
            Some(Some(Selector { tag, attr }))
        }
    }
}

/// filter lists for a document: paths are prefixes of html > chain
pub fn random_filters(rng: &mut Rng, doc: &Doc) -> Vec<DomFilter> {
    let mut full: Vec<String> = vec!["html".to_string()];
    full.extend(doc.chain.iter().cloned());
    let n = rng.range(1, 3);
    let mut out: Vec<DomFilter> = Vec::new();
    // shortest path length targeted by an earlier replace: later filters stay strictly above it, because a
    // replaced element takes the rest of the chain with it (a missing target is outside the statement)
    let mut replaced_at: usize = usize::MAX;
    for i in 0..n {
        // path: html..k, or starting at body
        let max_end = full.len().min(replaced_at.saturating_sub(1));
        if max_end == 0 {
            break;
        }
        let end = rng.range(1, max_end);
        let mut path: Vec<String> = full[..end].to_vec();
        if rng.chance(1, 5) && end >= 2 && full[1] == "body" {
            path.remove(0);
        }
        let target = path.last().unwrap().clone();
        // meta is void; title is an RCDATA element (inserted markup would be text, not elements): replace only
        let void_target = target == "meta" || target == "title" || (doc.repeated_innermost && end == full.len());
        let action = if void_target { "replace" } else { *rng.pick(&["append_child", "prepend_child", "replace"]) };
        if action == "replace" {
            replaced_at = replaced_at.min(end);
        }
        out.push(DomFilter {
            action: action.to_string(),
            path,
            selector: random_selector(rng),
            // replacing by the empty value is how an element is removed
            value: if action == "replace" && rng.chance(1, 8) { Node::Frag(Vec::new()) } else { value_subtree(rng, i + 1) },
        });
    }
    out
}
