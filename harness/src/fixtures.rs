//! Worlds harvested from the repository's own generated router test (`tests/redirectionio_router_test.rs`):
//! every `setup_*` function gives a router configuration and a rule list, the tests that call it give requests.
//! The harness does not re-assert what those tests assert; it uses the rule sets as *realistic data shapes* for
//! the differential relations (incremental == rebuilt, cache transparency, trace == match, JSON round trips),
//! which the suite does not check. Parsing is textual; whatever does not parse is skipped (the count of worlds
//! actually used is reported in the evidence).

use crate::world::{Cfg, ReqSpec, RuleSpec, World};
use regex::Regex;
use serde_json::Value;
use std::collections::BTreeMap;

pub const ROUTER_TEST: &str = "/repo/tests/redirectionio_router_test.rs";

#[derive(Clone, Debug)]
pub struct Fixture {
    pub name: String,
    pub world: World,
    pub requests: Vec<ReqSpec>,
}

fn opt_arg(a: &str) -> Option<String> {
    // Some(r#"x"#.to_string()) | r#"1.2.3.4"#.to_string().parse().ok() | None
    let re = Regex::new(r##"r#"(.*?)"#"##).unwrap();
    re.captures(a).map(|c| c[1].to_string())
}

pub fn load() -> Vec<Fixture> {
    let text = match std::fs::read_to_string(ROUTER_TEST) {
        Ok(t) => t,
        Err(_) => return Vec::new(),
    };
    let setup_re = Regex::new(r"(?s)fn setup_(\w+)\(\) -> Router<Rule> \{(.*?)\n    router\n\}").unwrap();
    let config_re = Regex::new(r##"RouterConfig = serde_json::from_str\(r#"(.*?)"#\)"##).unwrap();
    let rule_re = Regex::new(r##": Rule = serde_json::from_str\(r#"(.*?)"#\)"##).unwrap();
    let test_re = Regex::new(r"(?s)fn test_\w+\(\) \{\n    let router = setup_(\w+)\(\);(.*?)\n\}\n").unwrap();
    let request_re = Regex::new(r##"Request::new\(PathAndQueryWithSkipped::from_config\(&default_config, r#"(.*?)"#\), r#".*?"#\.to_string\(\),(.*)\);"##).unwrap();
    let created_re = Regex::new(r##"request\.set_created_at\(Some\(r#"(.*?)"#"##).unwrap();
    let header_re = Regex::new(r##"request\.add_header\(r#"(.*?)"#\.to_string\(\), r#"(.*?)"#\.to_string\(\)"##).unwrap();

    let mut by_name: BTreeMap<String, Fixture> = BTreeMap::new();
    for c in setup_re.captures_iter(&text) {
        let name = c[1].to_string();
        let body = &c[2];
        let cfg: Cfg = match config_re.captures(body).and_then(|m| serde_json::from_str::<Value>(&m[1]).ok()) {
            Some(v) => {
                let b = |k: &str| v.get(k).and_then(|x| x.as_bool()).unwrap_or(false);
                Cfg {
                    ignore_host_case: b("ignore_host_case"),
                    ignore_header_case: b("ignore_header_case"),
                    ignore_path_and_query_case: b("ignore_path_and_query_case"),
                    ignore_marketing_query_params: v.get("ignore_marketing_query_params").and_then(|x| x.as_bool()).unwrap_or(true),
                    pass_marketing_query_params_to_target: v.get("pass_marketing_query_params_to_target").and_then(|x| x.as_bool()).unwrap_or(true),
                    always_match_any_host: b("always_match_any_host"),
                    marketing_query_params: v
                        .get("marketing_query_params")
                        .and_then(|x| x.as_array())
                        .map(|a| a.iter().filter_map(|s| s.as_str().map(|s| s.to_string())).collect())
                        .unwrap_or_default(),
                }
            }
            None => continue,
        };
        let mut rules: Vec<RuleSpec> = Vec::new();
        let mut ok = true;
        for m in rule_re.captures_iter(body) {
            match serde_json::from_str::<Value>(&m[1]) {
                Ok(v) => {
                    // the rule must be loadable by the library as it stands
                    if serde_json::from_value::<redirectionio::api::Rule>(v.clone()).is_err() {
                        ok = false;
                        break;
                    }
                    // a sampling rate strictly between 0 and 100 makes the action a random variable: no oracle
                    if let Some(rate) = v.get("source").and_then(|s| s.get("sampling")).and_then(|x| x.as_u64()) {
                        if rate != 0 && rate < 100 {
                            ok = false;
                            break;
                        }
                    }
                    let id = v.get("id").and_then(|x| x.as_str()).unwrap_or("").to_string();
                    if id.is_empty() || rules.iter().any(|r| r.id == id) {
                        // the statements assume unique live ids
                        ok = false;
                        break;
                    }
                    rules.push(RuleSpec::from_raw(&id, &v));
                }
                Err(_) => {
                    ok = false;
                    break;
                }
            }
        }
        if !ok || rules.is_empty() {
            continue;
        }
        by_name.insert(
            name.clone(),
            Fixture {
                name,
                world: World { cfg, rules },
                requests: Vec::new(),
            },
        );
    }
    for c in test_re.captures_iter(&text) {
        let Some(fx) = by_name.get_mut(&c[1]) else { continue };
        let body = &c[2];
        let Some(r) = request_re.captures(body) else { continue };
        let args: Vec<&str> = r[2].split(',').collect();
        if args.len() != 5 {
            continue;
        }
        let mut q = ReqSpec::get(&r[1]);
        q.host = opt_arg(args[0]);
        q.scheme = opt_arg(args[1]);
        q.method = opt_arg(args[2]);
        q.ip = opt_arg(args[3]);
        q.created_at = created_re.captures(body).map(|m| m[1].to_string());
        for h in header_re.captures_iter(body) {
            q.headers.push((h[1].to_string(), h[2].to_string()));
        }
        if !fx.requests.contains(&q) {
            fx.requests.push(q);
        }
    }
    by_name.into_values().filter(|f| !f.requests.is_empty()).collect()
}
