//! rio-mon: runtime monitors for libredirectionio properties C01..C19.
//!
//! usage: rio-mon <Cxx> [--tier quick|thorough] [--seed N] [--jobs N] [--verif-dir DIR]
//!        rio-mon <Cxx> --replay <file>
//!
//! exit 0: property held on everything explored (KNOWN-FINDING lines possible)
//! exit 1: at least one `VIOLATION property=<id> replay=<path>` line was printed
//! exit 2: harness error (no verdict)

mod bodyfx;
mod corpus;
mod dom;
mod fixtures;
mod mon;
mod prng;
mod report;
mod util;
#[allow(dead_code)]
mod world;

use report::{Ctx, KnownFindings, Tier};
use std::path::PathBuf;

fn main() {
    let args: Vec<String> = std::env::args().collect();
    if args.len() < 2 {
        eprintln!("usage: rio-mon <Cxx> [--tier quick|thorough] [--seed N] [--jobs N] [--replay file]");
        std::process::exit(2);
    }

    // tools/coverage.sh only: instrumented builds are ~20x slower, so the coverage diagnostic gives every
    // monitor a fixed time slice; exit(0) (not a signal) so that the profile runtime flushes its counters.
    // Never set by ./check: a registered check always runs its whole budget.
    if let Some(secs) = std::env::var("VERIF_COV_SECONDS").ok().and_then(|s| s.parse::<u64>().ok()) {
        std::thread::spawn(move || {
            std::thread::sleep(std::time::Duration::from_secs(secs));
            eprintln!("coverage time slice of {secs}s used up: exiting (no verdict, no evidence)");
            std::process::exit(0);
        });
    }

    let property = args[1].to_uppercase();
    let mut tier = match std::env::var("VERIF_TIER").as_deref() {
        Ok("thorough") => Tier::Thorough,
        _ => Tier::Quick,
    };
    let mut tier_from_cli = false;
    let mut seed: u64 = std::env::var("VERIF_SEED").ok().and_then(|s| s.trim().parse::<i64>().ok()).map(|v| v as u64).unwrap_or(1);
    let mut jobs: usize = std::thread::available_parallelism().map(|n| n.get()).unwrap_or(8).min(16);
    let mut verif_dir = PathBuf::from(std::env::var("VERIF_DIR").unwrap_or_else(|_| "/verif".to_string()));
    let mut replay: Option<String> = None;
    let mut extra: Vec<String> = Vec::new();

    let mut i = 2;
    while i < args.len() {
        match args[i].as_str() {
            "--tier" => {
                i += 1;
                tier = if args.get(i).map(|s| s.as_str()) == Some("thorough") { Tier::Thorough } else { Tier::Quick };
                tier_from_cli = true;
            }
            "--seed" => {
                i += 1;
                seed = args.get(i).and_then(|s| s.parse::<i64>().ok()).map(|v| v as u64).unwrap_or(seed);
            }
            "--jobs" => {
                i += 1;
                jobs = args.get(i).and_then(|s| s.parse().ok()).unwrap_or(jobs);
            }
            "--verif-dir" => {
                i += 1;
                if let Some(d) = args.get(i) {
                    verif_dir = PathBuf::from(d);
                }
            }
            "--replay" => {
                i += 1;
                replay = args.get(i).cloned();
            }
            other => extra.push(other.to_string()),
        }
        i += 1;
    }
    let _ = tier_from_cli;

    let known = KnownFindings::load(&verif_dir.join("known_findings.json"));
    util::install_quiet_panic_hook();

    let code = mon::dispatch(&property, tier, seed, jobs, verif_dir, known, replay, extra);
    std::process::exit(code);
}

pub fn make_ctx(property: &'static str, tier: Tier, seed: u64, jobs: usize, verif_dir: PathBuf, known: KnownFindings) -> Ctx {
    Ctx {
        property,
        tier,
        seed,
        jobs,
        verif_dir,
        known,
    }
}
