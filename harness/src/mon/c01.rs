//! C01 — rule matching is exact: no missed rule, no spurious rule, no duplicates.
//!
//! Reference-model monitor: `multiset(ids(match_request))` is compared with the flat predicate of
//! `world::Model` for every (config, rule set, request) produced by the bounded-exhaustive catalogue
//! (atomic rules: singletons and pairs) and by random routers with witness-derived probes.

use super::Args;
use crate::prng::{fnv_str, mix, Rng};
use crate::report::{finish, Ctx, Report};
use crate::util::{guarded, run_sharded};
use crate::world::*;
use serde::{Deserialize, Serialize};
use serde_json::{json, Value};
use std::collections::BTreeMap;
use std::time::Instant;

#[derive(Clone, Debug, Serialize, Deserialize)]
pub struct Case {
    pub world: World,
    pub request: ReqSpec,
    /// warm the regex cache before matching
    #[serde(default)]
    pub cached: bool,
}

#[derive(Debug)]
pub enum Verdict {
    Ok { expected_len: usize },
    /// duplicates exactly explained by >= 2 satisfied ip constraints
    F1(String),
    /// mismatch exactly explained by case-sensitive header regexes under ignore_header_case
    F13(String),
    Bad(String),
}

pub fn shape_of_bucket(path: &str) -> String {
    // keep the layer kind of every segment, drop the values (values may themselves contain '/')
    const LAYERS: &[&str] = &["scheme", "host", "ip", "method", "hdr", "dt", "static", "path"];
    let mut out: Vec<String> = Vec::new();
    let bytes = path.as_bytes();
    let mut i = 0;
    while i < bytes.len() {
        let rest = &path[i..];
        let rest_trim = rest.strip_prefix('/').unwrap_or(rest);
        let mut found = false;
        if i == 0 || bytes[i] == b'/' {
            for layer in LAYERS {
                if let Some(after) = rest_trim.strip_prefix(layer) {
                    let kind = if after.starts_with("=*") {
                        "*"
                    } else if after.starts_with("!=") {
                        "!="
                    } else if after.starts_with('~') {
                        "~"
                    } else if after.starts_with('{') {
                        "{}"
                    } else if after.starts_with('=') {
                        "="
                    } else {
                        continue;
                    };
                    out.push(format!("{layer}{kind}"));
                    found = true;
                    break;
                }
            }
        }
        let _ = found;
        i += 1;
        while i < bytes.len() && bytes[i] != b'/' {
            i += 1;
        }
    }
    out.join("/")
}

pub fn judge(model: &Model, q: &ReqSpec, got: &[String]) -> Verdict {
    let mut trace = ModelTrace::default();
    let expected = model.expected(q, true, &mut trace);
    let mut got_set: Vec<String> = got.to_vec();
    got_set.dedup();

    if got_set != expected {
        let asis = model.expected(q, false, &mut ModelTrace::default());
        if model.cfg.ignore_header_case && got_set == asis {
            // every differing rule must carry a match_regex header condition
            let differing: Vec<&String> = expected
                .iter()
                .filter(|id| !got_set.contains(id))
                .chain(got_set.iter().filter(|id| !expected.contains(id)))
                .collect();
            let all_regex = differing.iter().all(|id| {
                model
                    .rules
                    .iter()
                    .find(|r| r.spec.id == **id)
                    .map(|r| r.spec.headers.iter().any(|h| h.kind == "match_regex"))
                    .unwrap_or(false)
            });
            if all_regex {
                return Verdict::F13(format!(
                    "ignore_header_case=true: match_request = {got_set:?}, expected {expected:?} (case-insensitive header regex); the difference is explained by header regexes compiled case-sensitively"
                ));
            }
        }
        return Verdict::Bad(format!("match_request = {got:?}, reference predicate says {expected:?}"));
    }

    if got.len() != got_set.len() {
        // duplicates: count per id
        let mut counts: BTreeMap<&String, usize> = BTreeMap::new();
        for id in got {
            *counts.entry(id).or_insert(0) += 1;
        }
        let mut explained = true;
        for (id, n) in &counts {
            if *n > 1 {
                let hits = model
                    .rules
                    .iter()
                    .find(|r| r.spec.id == **id)
                    .and_then(|r| r.ip_hits(q))
                    .unwrap_or(0);
                if hits != *n {
                    explained = false;
                }
            }
        }
        let msg = format!("match_request returned duplicates: {got:?} (expected each of {expected:?} once)");
        return if explained { Verdict::F1(msg) } else { Verdict::Bad(msg) };
    }

    Verdict::Ok {
        expected_len: expected.len(),
    }
}

pub struct Prepared {
    pub router: redirectionio::router::Router<redirectionio::api::Rule>,
    pub model: Model,
    pub config: redirectionio::RouterConfig,
}

pub fn prepare(world: &World, cached: bool) -> Prepared {
    let mut router = world.router();
    if cached {
        router.cache(Some(100_000));
    }
    Prepared {
        router,
        model: Model::new(&world.cfg, &world.rules),
        config: world.cfg.build(),
    }
}

pub fn observe(p: &Prepared, q: &ReqSpec) -> Vec<String> {
    let request = q.build(&p.config);
    ids_of(&p.router.match_request(&request))
}

fn record(ctx: &Ctx, world: &World, p: &Prepared, world_hash: u64, q: &ReqSpec, origin: &str, cached: bool, report: &mut Report) {
    report.eval();
    let case = || {
        serde_json::to_value(Case {
            world: world.clone(),
            request: q.clone(),
            cached,
        })
        .unwrap()
    };
    let got = match guarded(|| observe(p, q)) {
        Ok(g) => g,
        Err(panic) => {
            report.library_panic(&panic);
            return;
        }
    };
    match judge(&p.model, q, &got) {
        Verdict::Ok { expected_len } => {
            report.count(&format!("probe_origin_{origin}"));
            let mutation = origin != "random" && origin != "witness" && origin != "catalogue";
            if expected_len > 0 || mutation {
                report.nontrivial(mix(world_hash, fnv_str(&serde_json::to_string(q).unwrap())));
            }
            if expected_len > 0 {
                report.count("requests_with_nonempty_expected_set");
            }
            if expected_len >= 2 {
                report.count("requests_matching_2_or_more_rules");
            }
            if report.want_sample() && expected_len >= 2 && world.rules.len() >= 3 {
                report.sample(json!({
                    "config": world.cfg, "rules": world.rules.iter().map(|r| r.to_json()).collect::<Vec<_>>(),
                    "request": q, "matched": got,
                }));
            }
        }
        Verdict::F1(m) => report.finding(ctx, "C01-F1", m, case()),
        Verdict::F13(m) => report.finding(ctx, "C01-F13", m, case()),
        Verdict::Bad(m) => report.violation("mismatch", m, case()),
    }
    // model-side branch accounting
    let mut trace = ModelTrace::default();
    let _ = p.model.expected(q, true, &mut trace);
    report.count_n("model_any_host_fallback_taken", trace.any_host_fallback_taken as u64);
    report.count_n("model_any_host_fallback_suppressed", trace.any_host_fallback_suppressed as u64);
    for r in &p.model.rules {
        if let Some(t) = r.first_rejecting_trigger(q, &p.model.cfg) {
            report.count(&format!("model_rejected_by_{t}"));
        }
    }
}

fn record_shapes(p: &Prepared, report: &mut Report) {
    let dump = p.router.verif_dump();
    for (bucket, _) in &dump.storage {
        report.state("bucket_path_shapes", shape_of_bucket(bucket));
    }
}

/// one rule per pool option of every trigger dimension
pub fn atomic_rules() -> Vec<RuleSpec> {
    let mut out = Vec::new();
    let mut n = 0;
    let mut next = |f: &dyn Fn(&mut RuleSpec)| {
        let mut r = RuleSpec::simple(&format!("r{n:02}"), "/a");
        n += 1;
        f(&mut r);
        let mut used = r.path.marker_names();
        if let Some(h) = &r.host {
            used.extend(h.marker_names());
        }
        for h in &r.headers {
            if let Some(v) = &h.value {
                used.extend(v.marker_names());
            }
        }
        out.push((r, used));
    };
    for s in scheme_pool().into_iter().skip(1) {
        next(&|r| r.scheme = s.clone());
    }
    for h in host_pool().into_iter().skip(2) {
        next(&|r| r.host = h.clone());
    }
    for ip in ip_pool().into_iter().skip(2) {
        next(&|r| r.ips = ip.clone());
    }
    for (m, e) in method_pool().into_iter().skip(2) {
        next(&|r| {
            r.methods = m.clone();
            r.exclude_methods = e;
        });
    }
    for h in header_cond_pool() {
        next(&|r| r.headers = vec![h.clone()]);
    }
    for d in datetime_pool().into_iter().skip(3) {
        next(&|r| r.datetime = d.clone());
    }
    for t in time_pool().into_iter().skip(4) {
        next(&|r| r.time = t.clone());
    }
    for w in weekday_pool().into_iter().skip(4) {
        next(&|r| r.weekdays = w.clone());
    }
    for p in path_pool().into_iter().skip(1) {
        next(&|r| r.path = p.clone());
    }
    let markers = all_markers();
    out.into_iter()
        .map(|(mut r, used)| {
            r.markers = markers.iter().filter(|m| used.contains(&m.name)).cloned().collect();
            r
        })
        .collect()
}

fn all_markers() -> Vec<MarkerSpec> {
    crate::world::marker_pool()
}

/// all rules in one bucket region (same path, no scheme / host / ip / method trigger), differing only in their
/// conditions of ONE family — date-time (date ranges, times of day, weekdays) or headers — drawn from the small
/// pools, so that many rules share identical conditions: the grouping / memo logic of those two matchers
pub fn focused_world(rng: &mut Rng) -> World {
    let n = rng.range(3, 9);
    let time_family = rng.coin();
    let dates: Vec<_> = datetime_pool().into_iter().flatten().collect();
    let times: Vec<_> = time_pool().into_iter().flatten().collect();
    let days: Vec<_> = weekday_pool().into_iter().flatten().collect();
    let conds = header_cond_pool();
    let rules = (0..n)
        .map(|i| {
            let mut r = RuleSpec::simple(&format!("r{i:02}"), "/a");
            r.rank = *rng.pick(&[0u16, 0, 1, 2, 5, 10]);
            if time_family {
                if rng.chance(2, 3) {
                    r.datetime = Some(rng.pick(&dates).clone());
                }
                if rng.chance(1, 3) {
                    r.time = Some(rng.pick(&times).clone());
                }
                if rng.chance(2, 3) {
                    r.weekdays = Some(rng.pick(&days).clone());
                }
            } else {
                for _ in 0..rng.range(1, 3) {
                    let c = rng.pick(&conds).clone();
                    if c.value.as_ref().map(|v| v.has_marker()).unwrap_or(false) {
                        continue;
                    }
                    r.headers.push(c);
                }
            }
            r
        })
        .collect();
    World {
        cfg: Cfg::random(rng),
        rules,
    }
}

pub fn random_world(rng: &mut Rng, max_rules: usize) -> World {
    if max_rules >= 8 && rng.chance(1, 8) {
        return focused_world(rng);
    }
    let n = rng.range(1, max_rules);
    let rules = (0..n).map(|i| random_rule(rng, &format!("r{i:02}"))).collect();
    World {
        cfg: Cfg::random(rng),
        rules,
    }
}

pub fn run(ctx: &Ctx, _args: &Args) -> i32 {
    let started = Instant::now();
    let jobs = ctx.jobs;
    let atoms = atomic_rules();
    let n_worlds: u64 = ctx.tier.pick(40_000, 600_000);
    let catalogue_configs: Vec<u32> = vec![0, 8, 1, 9, 2, 4, 15];
    let pair_stride: usize = ctx.tier.pick(1, 1); // quick: every 3rd pair (deterministic), thorough: all pairs

    // catalogue requests: witnesses of every atomic rule under the plain config + fixed random ones
    let catalogue_requests: Vec<ReqSpec> = {
        let mut rng = Rng::new(0xC01);
        let cfg = Cfg::plain();
        let mut v = Vec::new();
        for a in &atoms {
            let m = ModelRule::new(a);
            let base = ReqSpec::get("/a");
            v.push(witness_for(&m, &cfg, &base, &mut rng));
        }
        for _ in 0..30 {
            v.push(random_request(&mut rng));
        }
        v.sort_by_key(|q| serde_json::to_string(q).unwrap());
        v.dedup();
        v
    };

    let mut report = run_sharded(jobs, |shard, report| {
        // (a) bounded-exhaustive: singletons and pairs of atomic rules
        let mut pair_index = 0usize;
        for i in 0..atoms.len() {
            for j in i..atoms.len() {
                pair_index += 1;
                if pair_index % jobs != shard {
                    continue;
                }
                if i != j && (pair_index / jobs) % pair_stride != 0 {
                    continue;
                }
                for bits in &catalogue_configs {
                    let mut rules = vec![atoms[i].clone()];
                    if i != j {
                        rules.push(atoms[j].clone());
                    }
                    let world = World {
                        cfg: Cfg::from_bits(*bits | 16),
                        rules,
                    };
                    let cached = (pair_index + *bits as usize) % 2 == 0;
                    let prepared = match guarded(|| prepare(&world, cached)) {
                        Ok(p) => p,
                        Err(panic) => {
                            report.library_panic(&panic);
                            continue;
                        }
                    };
                    let world_hash = fnv_str(&serde_json::to_string(&world).unwrap());
                    record_shapes(&prepared, report);
                    for q in &catalogue_requests {
                        record(ctx, &world, &prepared, world_hash, q, "catalogue", cached, report);
                    }
                    report.count("catalogue_routers");
                }
            }
        }

        // (b) random routers with witness-derived probes
        let mut rng = Rng::stream(ctx.seed, shard as u64);
        for w in 0..(n_worlds / jobs as u64) {
            let max_rules = if w % 4 == 0 { 30 } else { 8 };
            let world = random_world(&mut rng, max_rules);
            let cached = rng.coin();
            let prepared = match guarded(|| prepare(&world, cached)) {
                Ok(p) => p,
                Err(panic) => {
                    report.library_panic(&panic);
                    continue;
                }
            };
            let world_hash = fnv_str(&serde_json::to_string(&world).unwrap());
            record_shapes(&prepared, report);
            let probes = probes_for(&prepared.model, &mut rng, 2, 6);
            for (q, origin) in &probes {
                record(ctx, &world, &prepared, world_hash, q, origin, cached, report);
            }
            report.count("random_routers");
        }
    });

    report.exhaustive.insert(
        format!("atomic-rule catalogue ({} rules): all singletons{} x {} configs x {} catalogue requests", atoms.len(), if pair_stride == 1 { " and all unordered pairs" } else { " and every 3rd unordered pair" }, catalogue_configs.len(), catalogue_requests.len()),
        json!({"complete": pair_stride == 1, "atomic_rules": atoms.len(), "requests": catalogue_requests.len()}),
    );
    report.notes.insert("exhaustive".into(), json!(false));
    for layer in ["scheme", "host", "ip", "method", "headers", "datetime", "path"] {
        if !report.counters.contains_key(&format!("model_rejected_by_{layer}")) {
            report.inconclusive(format!("no request was rejected by the {layer} trigger: that layer is unobserved in this run"));
        }
    }

    finish(
        ctx,
        report,
        "routers built from generated rule JSON (7 trigger layers over tiny pools: schemes, static/templated hosts, nested/negated/v6 CIDRs, method lists/exclusions, 13 header conditions incl. regex, half-open datetime/time windows, weekdays, static/templated paths) x requests derived from per-rule witnesses and their single-trigger mutations; oracle = flat conjunction predicate + any-host policy per scheme scope. non-trivial = distinct (router, request) where at least one rule is satisfied or the request is a single-trigger mutation of a witness",
        &[
            "regex / chrono / cidr crates as primitives of the reference predicate",
            "request URLs restricted to normalisation-stable strings (normalisation is C09's subject)",
            "exclude_methods is presence-encoded: only {absent, true} generated",
        ],
        started,
        1000,
    )
    .exit_code
}

pub fn replay(_ctx: &Ctx, case: &Value) -> i32 {
    let case: Case = match serde_json::from_value(case.clone()) {
        Ok(c) => c,
        Err(e) => {
            eprintln!("bad case: {e}");
            return 2;
        }
    };
    let failures = match guarded(|| {
        let p = prepare(&case.world, case.cached);
        let got = observe(&p, &case.request);
        judge(&p.model, &case.request, &got)
    }) {
        Err(p) => vec![format!("panic: {p}")],
        Ok(Verdict::Ok { .. }) => vec![],
        Ok(Verdict::F1(m)) => vec![format!("[C01-F1] {m}")],
        Ok(Verdict::F13(m)) => vec![format!("[C01-F13] {m}")],
        Ok(Verdict::Bad(m)) => vec![m],
    };
    super::replay_verdict("C01", failures)
}
