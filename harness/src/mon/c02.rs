//! C02 — incremental rule updates are equivalent to rebuilding; clones are isolated.
//!
//! History monitor: ops over {insert, remove, batch_remove, apply_change_set, clone-then-mutate
//! (RuleChangeSet::update_existing_router on an Arc<Router>), cache}. After every op the router is
//! compared with (a) a router rebuilt from the live rule set, (b) the flat C01 predicate, (c) the
//! live-set model for len / get_route_by_id / remove return values, (d) the index dump (no dead id
//! stored anywhere), and every earlier base router must still give its recorded answers.

use super::c01::{judge, shape_of_bucket, Verdict};
use super::Args;
use crate::prng::{fnv_str, Rng};
use crate::report::{finish, Ctx, Report};
use crate::util::{guarded, run_sharded};
use crate::world::*;
use redirectionio::api::{Rule, RuleChangeSet};
use redirectionio::router::Router;
use serde::{Deserialize, Serialize};
use serde_json::{json, Value};
use std::collections::{BTreeMap, BTreeSet, HashSet};
use std::sync::Arc;
use std::time::Instant;

#[derive(Clone, Debug, Serialize, Deserialize)]
pub enum Op {
    Insert(RuleSpec),
    Remove(String),
    BatchRemove(Vec<String>),
    ChangeSet {
        added: Vec<RuleSpec>,
        updated: Vec<RuleSpec>,
        deleted: Vec<String>,
    },
    /// derive a new router from the current one (shared through an Arc) and continue on the derived one
    CloneMutate {
        added: Vec<RuleSpec>,
        updated: Vec<RuleSpec>,
        deleted: Vec<String>,
    },
    Cache(Option<u64>),
}

impl Op {
    fn kind(&self) -> &'static str {
        match self {
            Op::Insert(_) => "insert",
            Op::Remove(_) => "remove",
            Op::BatchRemove(_) => "batch_remove",
            Op::ChangeSet { .. } => "change_set",
            Op::CloneMutate { .. } => "clone_mutate",
            Op::Cache(_) => "cache",
        }
    }
}

#[derive(Clone, Debug, Serialize, Deserialize)]
pub struct Case {
    pub cfg: Cfg,
    pub ops: Vec<Op>,
    pub probes: Vec<ReqSpec>,
}

#[derive(Default)]
pub struct Obs {
    pub steps: u64,
    pub probes_checked: u64,
    pub skipped_ops: u64,
    pub removal_then_reinsert_same_bucket: bool,
    pub bucket_sets: Vec<u64>,
    pub shapes: BTreeSet<String>,
    pub bases_checked: u64,
    pub op_kinds: BTreeMap<&'static str, u64>,
    pub max_live: usize,
}

#[derive(Debug)]
pub struct Failure {
    pub class: &'static str,
    pub message: String,
}

fn fail(class: &'static str, message: String) -> Failure {
    Failure { class, message }
}

fn answers(router: &Router<Rule>, config: &redirectionio::RouterConfig, probes: &[ReqSpec]) -> Vec<Vec<String>> {
    probes.iter().map(|q| ids_of(&router.match_request(&q.build(config)))).collect()
}

/// applies a change-set to the model, mirroring the documented semantics
fn model_change_set(live: &mut BTreeMap<String, RuleSpec>, added: &[RuleSpec], updated: &[RuleSpec], deleted: &[String]) {
    for d in deleted {
        live.remove(d);
    }
    for u in updated {
        live.remove(&u.id);
    }
    for u in updated {
        live.insert(u.id.clone(), u.clone());
    }
    for a in added {
        live.insert(a.id.clone(), a.clone());
    }
}

pub fn model_change_set_pub(live: &mut BTreeMap<String, RuleSpec>, added: &[RuleSpec], updated: &[RuleSpec], deleted: &[String]) {
    model_change_set(live, added, updated, deleted)
}

/// true when applying this change-set keeps live ids unique (the property's precondition)
fn change_set_respects_uniqueness(live: &BTreeMap<String, RuleSpec>, added: &[RuleSpec], updated: &[RuleSpec], deleted: &[String]) -> bool {
    let mut seen: HashSet<&str> = HashSet::new();
    for r in updated.iter().chain(added.iter()) {
        if !seen.insert(r.id.as_str()) {
            return false;
        }
    }
    for a in added {
        let removed_first = deleted.contains(&a.id) || updated.iter().any(|u| u.id == a.id);
        if live.contains_key(&a.id) && !removed_first {
            return false;
        }
    }
    true
}

pub fn check(case: &Case, obs: &mut Obs) -> Result<(), Failure> {
    let config = case.cfg.build();
    let mut router = Router::<Rule>::from_config(case.cfg.build());
    let mut live: BTreeMap<String, RuleSpec> = BTreeMap::new();
    let mut ever: BTreeSet<String> = BTreeSet::new();
    // (base router, recorded answers, step at which it became a base)
    let mut bases: Vec<(Arc<Router<Rule>>, Vec<Vec<String>>, usize)> = Vec::new();
    let mut removed_buckets: HashSet<String> = HashSet::new();

    for (step, op) in case.ops.iter().enumerate() {
        *obs.op_kinds.entry(op.kind()).or_insert(0) += 1;
        let before_dump: BTreeMap<String, String> = router.verif_dump().storage.into_iter().map(|(b, id)| (id, b)).collect();
        match op {
            Op::Insert(rule) => {
                if live.contains_key(&rule.id) {
                    obs.skipped_ops += 1;
                    continue;
                }
                router.insert(rule.to_rule());
                live.insert(rule.id.clone(), rule.clone());
                ever.insert(rule.id.clone());
            }
            Op::Remove(id) => {
                let was_live = live.remove(id).is_some();
                let got = router.remove(id);
                match (&got, was_live) {
                    (Some(route), true) => {
                        if route.id() != id {
                            return Err(fail("remove-return", format!("step {step}: remove({id}) returned route {}", route.id())));
                        }
                    }
                    (None, false) => {}
                    (Some(route), false) => {
                        return Err(fail("remove-return", format!("step {step}: remove({id}) of an absent id returned route {}", route.id())));
                    }
                    (None, true) => {
                        return Err(fail("remove-return-none", format!("step {step}: remove({id}) of a live rule returned None")));
                    }
                }
                if let Some(b) = before_dump.get(id) {
                    removed_buckets.insert(b.clone());
                }
            }
            Op::BatchRemove(ids) => {
                for id in ids {
                    if live.remove(id).is_some() {
                        if let Some(b) = before_dump.get(id) {
                            removed_buckets.insert(b.clone());
                        }
                    }
                }
                let set: HashSet<String> = ids.iter().cloned().collect();
                router.batch_remove(&set);
            }
            Op::ChangeSet { added, updated, deleted } => {
                if !change_set_respects_uniqueness(&live, added, updated, deleted) {
                    obs.skipped_ops += 1;
                    continue;
                }
                for id in deleted.iter().chain(updated.iter().map(|u| &u.id)) {
                    if let Some(b) = before_dump.get(id) {
                        removed_buckets.insert(b.clone());
                    }
                }
                model_change_set(&mut live, added, updated, deleted);
                for r in added.iter().chain(updated.iter()) {
                    ever.insert(r.id.clone());
                }
                router.apply_change_set(
                    added.iter().map(|r| r.to_rule()).collect(),
                    updated.iter().map(|r| r.to_rule()).collect(),
                    deleted.iter().cloned().collect(),
                );
            }
            Op::CloneMutate { added, updated, deleted } => {
                if !change_set_respects_uniqueness(&live, added, updated, deleted) {
                    obs.skipped_ops += 1;
                    continue;
                }
                model_change_set(&mut live, added, updated, deleted);
                for r in added.iter().chain(updated.iter()) {
                    ever.insert(r.id.clone());
                }
                let base = Arc::new(router);
                let recorded = answers(&base, &config, &case.probes);
                let change_set = RuleChangeSet {
                    added: added.iter().map(|r| r.to_rule()).collect(),
                    updated: updated.iter().map(|r| r.to_rule()).collect(),
                    deleted: deleted.iter().cloned().collect(),
                };
                router = change_set.update_existing_router(base.clone());
                bases.push((base, recorded, step));
            }
            Op::Cache(limit) => {
                router.cache(*limit);
            }
        }
        obs.steps += 1;
        obs.max_live = obs.max_live.max(live.len());

        // (1) size and lookup by id
        if router.len() != live.len() {
            return Err(fail("len", format!("step {step} {}: len() = {}, live rules = {}", op.kind(), router.len(), live.len())));
        }
        if router.is_empty() != live.is_empty() {
            return Err(fail("len", format!("step {step}: is_empty() disagrees with the live set")));
        }
        for id in &ever {
            let got = router.get_route_by_id(id).is_some();
            if got != live.contains_key(id) {
                return Err(fail(
                    "get_route_by_id",
                    format!("step {step} {}: get_route_by_id({id}) present={got}, live={}", op.kind(), live.contains_key(id)),
                ));
            }
        }

        // (4) the index stores exactly the live ids
        let dump = router.verif_dump();
        let stored: BTreeSet<String> = dump.storage.iter().map(|(_, id)| id.clone()).collect();
        let live_ids: BTreeSet<String> = live.keys().cloned().collect();
        if stored != live_ids {
            let dead: Vec<&String> = stored.difference(&live_ids).collect();
            let missing: Vec<&String> = live_ids.difference(&stored).collect();
            return Err(fail(
                "index-storage",
                format!("step {step} {}: ids stored in the index != live ids; dead = {dead:?}, missing = {missing:?}", op.kind()),
            ));
        }
        let mut bucket_hash = 0u64;
        for (b, id) in &dump.storage {
            bucket_hash ^= fnv_str(b).wrapping_mul(31) ^ fnv_str(id);
            obs.shapes.insert(shape_of_bucket(b));
            if matches!(op, Op::Insert(_) | Op::ChangeSet { .. } | Op::CloneMutate { .. }) && removed_buckets.contains(b) && !before_dump.contains_key(id) {
                obs.removal_then_reinsert_same_bucket = true;
            }
        }
        obs.bucket_sets.push(bucket_hash);

        // (3) probes: incremental == rebuilt == flat predicate
        let live_rules: Vec<RuleSpec> = live.values().cloned().collect();
        let rebuilt = World {
            cfg: case.cfg.clone(),
            rules: live_rules.clone(),
        }
        .router();
        // rules harvested as raw JSON are outside the flat predicate: differential relations only
        let model = if live_rules.iter().all(|r| r.raw.is_none()) { Some(Model::new(&case.cfg, &live_rules)) } else { None };
        for q in &case.probes {
            let request = q.build(&config);
            let got = ids_of(&router.match_request(&request));
            let reference = ids_of(&rebuilt.match_request(&request));
            obs.probes_checked += 1;
            if got != reference {
                return Err(fail(
                    "incremental-vs-rebuilt",
                    format!("step {step} {}: incremental router answers {got:?}, rebuilt router {reference:?} for {q:?}", op.kind()),
                ));
            }
            if let Some(model) = &model {
                match judge(model, q, &got) {
                    Verdict::Ok { .. } => {}
                    Verdict::F1(m) | Verdict::F13(m) | Verdict::Bad(m) => {
                        return Err(fail("vs-flat-predicate", format!("step {step} {}: {m} for {q:?}", op.kind())));
                    }
                }
            }
        }

        // (5) every earlier base router still answers as recorded
        for (base, recorded, since) in &bases {
            let now = answers(base, &config, &case.probes);
            obs.bases_checked += 1;
            if &now != recorded {
                let at = now.iter().zip(recorded.iter()).position(|(a, b)| a != b).unwrap_or(0);
                return Err(fail(
                    "clone-isolation",
                    format!(
                        "step {step} {}: the router shared at step {since} changed its answer for {:?}: {:?} -> {:?}",
                        op.kind(),
                        case.probes[at],
                        recorded[at],
                        now[at]
                    ),
                ));
            }
            if base.len() == 0 && !recorded.iter().all(|r| r.is_empty()) {
                return Err(fail("clone-isolation", format!("step {step}: a shared router lost its rules")));
            }
        }
    }
    Ok(())
}

// ---------------------------------------------------------------------------------------------
// generation

fn gen_change_set(rng: &mut Rng, live_ids: &mut Vec<String>, id_pool: &[String], fresh: &mut dyn FnMut(&mut Rng, &str) -> RuleSpec) -> (Vec<RuleSpec>, Vec<RuleSpec>, Vec<String>) {
    let mut added = Vec::new();
    let mut updated = Vec::new();
    let mut deleted = Vec::new();
    let mut touched: HashSet<String> = HashSet::new();
    // deleted: live or absent ids
    for _ in 0..rng.below(3) {
        let id = if !live_ids.is_empty() && rng.chance(3, 4) {
            rng.pick(live_ids).clone()
        } else {
            rng.pick(id_pool).clone()
        };
        if touched.insert(id.clone()) {
            deleted.push(id);
        }
    }
    // updated: live ids mostly, sometimes absent ones
    for _ in 0..rng.below(3) {
        let id = if !live_ids.is_empty() && rng.chance(4, 5) {
            rng.pick(live_ids).clone()
        } else {
            rng.pick(id_pool).clone()
        };
        if touched.insert(id.clone()) {
            updated.push(fresh(rng, &id));
        }
    }
    // added: ids that are not live (or are deleted by this very change-set)
    for _ in 0..rng.below(3) {
        let id = rng.pick(id_pool).clone();
        let is_live = live_ids.contains(&id);
        if is_live && !deleted.contains(&id) {
            continue;
        }
        if updated.iter().any(|u| u.id == id) || added.iter().any(|a: &RuleSpec| a.id == id) {
            continue;
        }
        added.push(fresh(rng, &id));
    }
    live_ids.retain(|id| !deleted.contains(id));
    for r in updated.iter().chain(added.iter()) {
        if !live_ids.contains(&r.id) {
            live_ids.push(r.id.clone());
        }
    }
    (added, updated, deleted)
}

/// history over the rules of a fixture world: ids r00.. are slots, a slot is filled with (a copy of) any rule
/// of the fixture under the slot's id, so that updates replace a rule by a differently shaped one
pub fn fixture_case(rng: &mut Rng, max_ops: usize, fx: &crate::fixtures::Fixture, extra_probes: &[ReqSpec]) -> Case {
    let n_ids = (fx.world.rules.len() + 2).min(12).max(3);
    let id_pool: Vec<String> = (0..n_ids).map(|i| format!("r{i:02}")).collect();
    let pool = &fx.world.rules;
    let mut fresh = |rng: &mut Rng, id: &str| -> RuleSpec {
        let mut r = rng.pick(pool).clone();
        r.id = id.to_string();
        r
    };
    let (ops, _all) = random_ops(rng, max_ops, &id_pool, &mut fresh);
    let mut probes: Vec<ReqSpec> = fx.requests.clone();
    for _ in 0..8 {
        if !extra_probes.is_empty() {
            probes.push(rng.pick(extra_probes).clone());
        }
    }
    probes.sort_by_key(|q| serde_json::to_string(q).unwrap());
    probes.dedup();
    rng.shuffle(&mut probes);
    probes.truncate(40);
    Case {
        cfg: fx.world.cfg.clone(),
        ops,
        probes,
    }
}

pub fn random_case(rng: &mut Rng, max_ops: usize) -> Case {
    let cfg = Cfg::random(rng);
    let n_ids = rng.range(3, 12);
    let id_pool: Vec<String> = (0..n_ids).map(|i| format!("r{i:02}")).collect();
    // bias towards a few bucket regions: reuse a small set of rule "shapes" per history
    let shape_seed = rng.next_u64();
    let n_shapes = rng.range(2, 6);
    let mut fresh = |rng: &mut Rng, id: &str| -> RuleSpec {
        let mut shape_rng = Rng::stream(shape_seed, rng.below(n_shapes) as u64);
        let mut r = if rng.chance(2, 3) { random_rule(&mut shape_rng, id) } else { random_rule(rng, id) };
        r.id = id.to_string();
        if rng.chance(1, 2) {
            // same bucket region, different leaf: vary only the path
            r.path = rng.pick(&path_pool()).clone();
            let names = r.path.marker_names();
            for m in crate::world::marker_pool() {
                if names.contains(&m.name) && !r.markers.iter().any(|k| k.name == m.name) {
                    r.markers.push(m);
                }
            }
        }
        r
    };
    let (ops, all_rules) = random_ops(rng, max_ops, &id_pool, &mut fresh);
    // probes: a witness per rule ever inserted + mutations + a few random requests
    let model = Model::new(&cfg, &all_rules);
    let mut probes: Vec<ReqSpec> = probes_for(&model, rng, 1, 4).into_iter().map(|(q, _)| q).collect();
    probes.sort_by_key(|q| serde_json::to_string(q).unwrap());
    probes.dedup();
    rng.shuffle(&mut probes);
    probes.truncate(40);
    Case { cfg, ops, probes }
}

/// random operation history over an id pool; `fresh(rng, id)` produces the rule stored under `id`
fn random_ops(rng: &mut Rng, max_ops: usize, id_pool: &[String], fresh: &mut dyn FnMut(&mut Rng, &str) -> RuleSpec) -> (Vec<Op>, Vec<RuleSpec>) {
    let nops = rng.range(4, max_ops);
    let mut ops = Vec::new();
    let mut live_ids: Vec<String> = Vec::new();
    let mut all_rules: Vec<RuleSpec> = Vec::new();
    for _ in 0..nops {
        match rng.below(12) {
            0..=3 => {
                let candidates: Vec<&String> = id_pool.iter().filter(|id| !live_ids.contains(id)).collect();
                if candidates.is_empty() {
                    continue;
                }
                let id = (*rng.pick(&candidates)).clone();
                let rule = fresh(rng, &id);
                all_rules.push(rule.clone());
                live_ids.push(id);
                ops.push(Op::Insert(rule));
            }
            4 | 5 => {
                if !live_ids.is_empty() && rng.chance(5, 6) {
                    let at = rng.below(live_ids.len());
                    ops.push(Op::Remove(live_ids.remove(at)));
                } else {
                    ops.push(Op::Remove(rng.pick(id_pool).clone()));
                    let last = match ops.last() {
                        Some(Op::Remove(id)) => id.clone(),
                        _ => unreachable!(),
                    };
                    live_ids.retain(|id| *id != last);
                }
            }
            6 => {
                let mut ids = Vec::new();
                for _ in 0..rng.range(1, 4) {
                    ids.push(rng.pick(id_pool).clone());
                }
                live_ids.retain(|id| !ids.contains(id));
                ops.push(Op::BatchRemove(ids));
            }
            7 | 8 => {
                let (added, updated, deleted) = gen_change_set(rng, &mut live_ids, id_pool, fresh);
                all_rules.extend(added.iter().cloned());
                all_rules.extend(updated.iter().cloned());
                ops.push(Op::ChangeSet { added, updated, deleted });
            }
            9 | 10 => {
                let (added, updated, deleted) = gen_change_set(rng, &mut live_ids, id_pool, fresh);
                all_rules.extend(added.iter().cloned());
                all_rules.extend(updated.iter().cloned());
                ops.push(Op::CloneMutate { added, updated, deleted });
            }
            _ => {
                ops.push(Op::Cache(*rng.pick(&[None, Some(0), Some(1), Some(3), Some(1000)])));
            }
        }
    }
    (ops, all_rules)
}

// ---------------------------------------------------------------------------------------------

/// greedy delta-debugging: drop ops, then probes, while the same failure class persists
pub fn minimise(case: &Case, class: &str) -> Case {
    let mut best = case.clone();
    let still_fails = |c: &Case| matches!(guarded(|| check(c, &mut Obs::default())), Ok(Err(f)) if f.class == class);
    let mut i = best.ops.len();
    while i > 0 {
        i -= 1;
        let mut candidate = best.clone();
        candidate.ops.remove(i);
        if still_fails(&candidate) {
            best = candidate;
        }
    }
    let mut j = best.probes.len();
    while j > 0 && best.probes.len() > 1 {
        j -= 1;
        let mut candidate = best.clone();
        candidate.probes.remove(j);
        if still_fails(&candidate) {
            best = candidate;
        }
    }
    best
}

fn rule_has_dynamic_host(case: &Case, id: &str) -> bool {
    let mut found = false;
    let mut visit = |r: &RuleSpec| {
        if r.id == id {
            if let Some(h) = &r.host {
                if h.has_marker() {
                    found = true;
                }
            }
        }
    };
    for op in &case.ops {
        match op {
            Op::Insert(r) => visit(r),
            Op::ChangeSet { added, updated, .. } | Op::CloneMutate { added, updated, .. } => {
                added.iter().for_each(&mut visit);
                updated.iter().for_each(&mut visit);
            }
            _ => {}
        }
    }
    found
}

fn record(ctx: &Ctx, case: &Case, report: &mut Report) {
    report.eval();
    let mut obs = Obs::default();
    let result = guarded(|| check(case, &mut obs));
    report.count_n("steps_checked", obs.steps);
    report.count_n("probe_comparisons", obs.probes_checked);
    report.count_n("base_router_rechecks", obs.bases_checked);
    report.count_n("ops_skipped_for_violating_id_uniqueness", obs.skipped_ops);
    for (k, n) in &obs.op_kinds {
        report.count_n(&format!("op_{k}"), *n);
    }
    for s in &obs.shapes {
        report.state("bucket_path_shapes", s.clone());
    }
    for h in &obs.bucket_sets {
        report.distinct("bucket_sets", *h);
    }
    match result {
        Err(panic) => report.library_panic(&panic),
        Ok(Ok(())) => {
            let has_removal = case.ops.iter().any(|o| matches!(o, Op::Remove(_) | Op::BatchRemove(_) | Op::ChangeSet { .. } | Op::CloneMutate { .. }));
            if has_removal && obs.removal_then_reinsert_same_bucket {
                report.nontrivial(fnv_str(&serde_json::to_string(case).unwrap()));
                if report.want_sample() && case.ops.len() <= 10 {
                    report.sample(json!({"config": case.cfg, "ops": case.ops.iter().map(|o| o.kind()).collect::<Vec<_>>(), "history": case.ops, "probes": case.probes.len()}));
                }
            }
        }
        Ok(Err(f)) => {
            let small = minimise(case, f.class);
            let mut o = Obs::default();
            let message = match check(&small, &mut o) {
                Err(f2) => f2.message,
                Ok(()) => f.message.clone(),
            };
            let case_json = serde_json::to_value(&small).unwrap();
            // F2: Router::remove returns None for a rule bound to a templated host
            if f.class == "remove-return-none" {
                let id = small.ops.iter().rev().find_map(|o| if let Op::Remove(id) = o { Some(id.clone()) } else { None });
                if let Some(id) = id {
                    if rule_has_dynamic_host(&small, &id) {
                        report.finding(ctx, "C02-F2", message, case_json);
                        return;
                    }
                }
            }
            report.violation(f.class, message, case_json);
        }
    }
}

pub fn run(ctx: &Ctx, _args: &Args) -> i32 {
    let started = Instant::now();
    let jobs = ctx.jobs;
    let n_histories: u64 = ctx.tier.pick(2_400, 48_000);
    let max_ops: usize = ctx.tier.pick(25, 40);

    // rule sets of the repository's own fixtures as realistic data shapes (differential relations only)
    let fixtures = crate::fixtures::load();
    let fixture_requests: Vec<ReqSpec> = fixtures.iter().flat_map(|f| f.requests.iter().cloned()).collect();
    let n_fixture_histories: u64 = ctx.tier.pick(800, 16_000);

    let mut report = run_sharded(jobs, |shard, report| {
        let mut rng = Rng::stream(ctx.seed, shard as u64);
        for _ in 0..(n_histories / jobs as u64) {
            let case = random_case(&mut rng, max_ops);
            record(ctx, &case, report);
        }
        if !fixtures.is_empty() {
            for k in 0..(n_fixture_histories / jobs as u64) {
                let fx = &fixtures[(k as usize * jobs + shard) % fixtures.len()];
                let case = fixture_case(&mut rng, max_ops, fx, &fixture_requests);
                record(ctx, &case, report);
                report.count("fixture_histories");
                report.state("fixture_worlds_used", &fx.name);
            }
        }
    });
    report.notes.insert("fixture_worlds_parsed".into(), json!(fixtures.len()));
    if fixtures.is_empty() {
        report.inconclusive("no fixture world could be harvested from tests/redirectionio_router_test.rs: the fixture histories were not run");
    }

    finish(
        ctx,
        report,
        "random histories over generated rules, and over the rule sets harvested from the repository's generated router test (raw JSON rules: differential relations only, no flat predicate) (<= 25/40 ops, <= 12 ids, few rule shapes per history so that the same bucket regions are emptied and refilled) over {insert, remove, batch_remove, apply_change_set, clone-then-mutate via RuleChangeSet::update_existing_router, cache}; after EVERY op: len/get_route_by_id/remove return vs live-set model, ids stored in the index == live ids (hook), every probe: incremental == rebuilt == flat predicate, every earlier shared base router re-probed. non-trivial = history with a removal-type op followed by an insert into a bucket that a removal had touched (observed through the index dump)",
        &["the C01 reference predicate", "id uniqueness among live rules (ops violating it are skipped and counted)"],
        started,
        50,
    )
    .exit_code
}

pub fn replay(_ctx: &Ctx, case: &Value) -> i32 {
    let case: Case = match serde_json::from_value(case.clone()) {
        Ok(c) => c,
        Err(e) => {
            eprintln!("bad case: {e}");
            return 2;
        }
    };
    let failures = match guarded(|| check(&case, &mut Obs::default())) {
        Err(p) => vec![format!("panic: {p}")],
        Ok(Err(f)) => vec![format!("[{}] {}", f.class, f.message)],
        Ok(Ok(())) => vec![],
    };
    super::replay_verdict("C02", failures)
}
