//! C03 — body filtering is invariant under chunking of the response stream.
//!
//! Differential monitor on the real filter chain: filter(b)+end() versus concat(filter(c_i))+end()
//! for partitions of b. Failures are minimised to a minimal failing cut set and classified against
//! an independent span scanner: only cuts inside a multi-byte UTF-8 sequence (K2) or inside a
//! comment / bogus comment / doctype / CDATA / raw-text region (K1) can be known findings.

use super::Args;
use crate::bodyfx::*;
use crate::corpus;
use crate::prng::{fnv, mix, Rng};
use crate::report::{finish, Ctx, Report};
use crate::util::{guarded, hex, run_sharded, show, unhex};
use serde::{Deserialize, Serialize};
use serde_json::{json, Value};
use std::time::Instant;

#[derive(Clone, Debug, Serialize, Deserialize)]
pub struct Case {
    pub body_hex: String,
    pub fc: FilterCase,
    pub cuts: Vec<usize>,
}

pub enum Verdict {
    Same { held: usize, buffered: bool },
    Differs { class: &'static str, message: String, minimal_cuts: Vec<usize> },
}

fn differs(fc: &FilterCase, body: &[u8], whole: &[u8], cuts: &[usize]) -> Option<Run> {
    let run = run_chunks(fc, &split_at(body, cuts));
    if run.out != whole {
        Some(run)
    } else {
        None
    }
}

pub fn check(body: &[u8], fc: &FilterCase, whole: &Run, cuts: &[usize]) -> Verdict {
    let run = run_chunks(fc, &split_at(body, cuts));
    if run.out == whole.out {
        return Verdict::Same {
            held: run.max_held,
            buffered: run.buffered_element_seen,
        };
    }
    // minimise the cut set (greedy removal)
    let mut minimal: Vec<usize> = cuts.to_vec();
    let mut i = minimal.len();
    while i > 0 {
        i -= 1;
        let mut candidate = minimal.clone();
        candidate.remove(i);
        if differs(fc, body, &whole.out, &candidate).is_some() {
            minimal = candidate;
        }
    }
    let spans = scan_spans(body);
    let min_run = differs(fc, body, &whole.out, &minimal).unwrap_or(run);
    let classes: Vec<CutClass> = minimal.iter().map(|c| classify_cut(body, &spans, *c)).collect();
    let message = format!(
        "chunked output differs from single-chunk output; minimal cut set {:?} classified {:?}; whole = '{}' chunked = '{}'",
        minimal,
        classes,
        show(&whole.out),
        show(&min_run.out)
    );
    // K2 needs the error state to have been entered by the call whose chunk ends at a UTF-8 cut
    let error_caused_by_utf8_cut = match min_run.error_at {
        Some(call) if call < minimal.len() => classes[call] == CutClass::Utf8,
        _ => false,
    };
    let class = if minimal.is_empty() {
        "nondeterministic"
    } else if !scanner_agrees_with_library(body, &spans) {
        // the independent scanner and the tokenizer segment this body differently: the classification
        // cannot be trusted either way (reported as inconclusive, never as a verdict)
        "unclassifiable"
    } else if error_caused_by_utf8_cut {
        // everything after the error is pass-through (and the loss of held bytes is C04's finding F4)
        "C03-K2"
    } else if min_run.error_at.is_none() && classes.iter().any(|c| *c == CutClass::Context) {
        // every cut of a minimal set is necessary: the context-losing cut is part of the cause, and after
        // it the library's view of the rest of the document has already diverged
        "C03-K1"
    } else {
        "chunk-dependent"
    };
    Verdict::Differs {
        class,
        message,
        minimal_cuts: minimal,
    }
}

struct Prepared {
    body: Vec<u8>,
    fc: FilterCase,
    whole: Run,
    hash: u64,
    relevant: bool,
}

fn prepare(body: Vec<u8>, fc: FilterCase) -> Option<Prepared> {
    let whole = guarded(|| run_chunks(&fc, &[&body])).ok()?;
    let hash = mix(fnv(&body), fnv(serde_json::to_string(&fc).unwrap().as_bytes()));
    // non-trivial: some filter exists and one of its path elements occurs in the body (or a text filter)
    let lower = String::from_utf8_lossy(&body).to_lowercase();
    let relevant = !whole.empty_chain
        && fc.filters.iter().any(|f| {
            f.get("content").is_some()
                || f.get("element_tree")
                    .and_then(|t| t.as_array())
                    .map(|t| t.iter().any(|e| e.as_str().map(|e| lower.contains(&format!("<{e}"))).unwrap_or(false)))
                    .unwrap_or(false)
        });
    Some(Prepared { body, fc, whole, hash, relevant })
}

fn record(ctx: &Ctx, p: &Prepared, cuts: &[usize], kind: &str, report: &mut Report) {
    report.eval();
    let case = |cuts: &[usize]| {
        serde_json::to_value(Case {
            body_hex: hex(&p.body),
            fc: p.fc.clone(),
            cuts: cuts.to_vec(),
        })
        .unwrap()
    };
    match guarded(|| check(&p.body, &p.fc, &p.whole, cuts)) {
        Err(panic) => report.library_panic(&panic),
        Ok(Verdict::Same { held, buffered }) => {
            report.count(&format!("partitions_{kind}"));
            let interior = cuts.iter().any(|c| *c > 0 && *c < p.body.len());
            if p.relevant && interior {
                report.nontrivial(mix(p.hash, fnv(format!("{cuts:?}").as_bytes())));
            }
            if held > 0 {
                report.count("partitions_with_bytes_held_back");
            }
            if buffered {
                report.count("partitions_with_buffered_element");
            }
            if report.want_sample() && p.relevant && held > 0 && cuts.len() >= 2 {
                report.sample(json!({"body": show(&p.body), "filters": p.fc.filters, "headers": p.fc.headers, "cuts": cuts, "output": show(&p.whole.out)}));
            }
        }
        Ok(Verdict::Differs { class, message, minimal_cuts }) => {
            if class == "C03-K1" || class == "C03-K2" {
                report.finding(ctx, class, message, case(&minimal_cuts));
            } else if class == "unclassifiable" {
                report.count("failures_on_bodies_the_scanner_cannot_classify");
                report.inconclusive(format!("chunk-dependent output on a body whose token structure the independent scanner segments differently from the tokenizer (not classified): {}", crate::report::truncate(&message, 300)));
            } else {
                report.violation(class, message, case(&minimal_cuts));
            }
        }
    }
}

fn sweep(ctx: &Ctx, p: &Prepared, two_cuts: bool, report: &mut Report) {
    let n = p.body.len();
    // all single cuts, including 0 and n (empty first / last chunk)
    for cut in 0..=n {
        record(ctx, p, &[cut], "single_cut", report);
    }
    // byte at a time and strides
    for stride in [1usize, 2, 3, 5, 7, 10, 16, 64] {
        if stride < n {
            record(ctx, p, &stride_cuts(n, stride), "stride", report);
        }
    }
    if two_cuts && n <= 60 {
        for a in 1..n {
            for b in a..n {
                record(ctx, p, &[a, b], "two_cuts", report);
            }
        }
    }
    report.count("body_filter_pairs_swept");
}

pub fn run(ctx: &Ctx, _args: &Args) -> i32 {
    let started = Instant::now();
    let jobs = ctx.jobs;
    let docs = corpus::html_documents();
    let standard = standard_filter_cases(true);
    let random_pairs: u64 = ctx.tier.pick(200_000, 4_000_000);
    let two_cut_fcs: usize = ctx.tier.pick(3, standard.len());

    let report = run_sharded(jobs, |shard, report| {
        // (1) corpus x standard filter lists: exhaustive single cuts, strides, 2-cuts for small bodies
        let mut index = 0;
        for doc in &docs {
            for (fi, fc) in standard.iter().enumerate() {
                index += 1;
                if index % jobs != shard {
                    continue;
                }
                if let Some(p) = prepare(doc.clone(), fc.clone()) {
                    sweep(ctx, &p, fi < two_cut_fcs, report);
                }
            }
        }
        // (2) mutated / generated bodies x random filter lists x single cuts + random partitions
        let mut rng = Rng::stream(ctx.seed, shard as u64);
        for _ in 0..(random_pairs / jobs as u64) {
            let base = rng.pick(&docs).clone();
            let body = if rng.chance(1, 4) { base } else { mutate_body(&base, &mut rng, false) };
            if contains_sentinel_alphabet(&body) {
                continue;
            }
            let fc = if rng.chance(1, 3) { rng.pick(&standard).clone() } else { random_filter_case(&mut rng, true, true) };
            let p = match prepare(body, fc) {
                Some(p) => p,
                None => continue,
            };
            let n = p.body.len();
            if rng.chance(1, 3) {
                for cut in 0..=n {
                    record(ctx, &p, &[cut], "single_cut", report);
                }
            }
            record(ctx, &p, &stride_cuts(n, 1), "stride", report);
            for _ in 0..6 {
                let cuts = random_cuts(n, &mut rng);
                record(ctx, &p, &cuts, "random_cuts", report);
            }
            report.count("random_body_filter_pairs");
        }
        // (3) one token far longer than any buffer threshold (a start tag with a 100 KB attribute value, a 100 KB text
        // node holding a literal '<') on the filter's path, delivered in chunks of 4 KB .. 70 KB
        {
            let big_attr = "x".repeat(100_000);
            let big_text = format!("1 < 2 {}", "lorem ipsum ".repeat(9_000));
            let docs_big = [
                format!("<html><head><title>t</title></head><body data-big=\"{big_attr}\" class=\"p\"><div>content</div></body></html>"),
                format!("<html><head><title>t</title></head><body><div>{big_text}</div><p>tail</p></body></html>"),
            ];
            let fcs = [
                FilterCase { filters: vec![html_filter("prepend_child", &["html", "body"], None, &sentinel(1, true))], headers: vec![("Content-Type".to_string(), "text/html".to_string())] },
                FilterCase { filters: vec![html_filter("append_child", &["html", "body", "div"], Some("span.nomatch"), &sentinel(2, true))], headers: vec![("Content-Type".to_string(), "text/html".to_string())] },
                FilterCase { filters: vec![html_filter("replace", &["html", "body", "div"], None, &sentinel(3, true))], headers: vec![] },
            ];
            let mut k = 0;
            for d in &docs_big {
                for fc in &fcs {
                    k += 1;
                    if k % jobs != shard {
                        continue;
                    }
                    if let Some(p) = prepare(d.clone().into_bytes(), fc.clone()) {
                        let n = p.body.len();
                        for stride in [4_096usize, 16_384, 60_000, 70_000] {
                            record(ctx, &p, &stride_cuts(n, stride), "large_token_stride", report);
                        }
                        report.count("large_token_documents");
                    }
                }
            }
        }
    });

    let mut report = report;
    report.exhaustive.insert(
        "per (corpus document, standard filter list): every single cut offset 0..=n, strides {1,2,3,5,7,10,16,64}, all 2-cut partitions for |b| <= 60".to_string(),
        json!({"complete": true, "documents": docs.len(), "filter_lists": standard.len()}),
    );
    report.notes.insert("exhaustive".into(), json!(false));

    finish(
        ctx,
        report,
        "bodies: hostile hand-written corpus (scripts with tag-like strings, escaped script states, comments, CDATA, doctype, raw-text elements, all quoting styles, truncated documents, multi-byte UTF-8) and mutations of it; filter lists: standard family + random lists of append/prepend/replace x paths x selectors, text filters, unknown actions, content types; partitions: all single cuts, strides, 2-cuts, random k-cuts with empty chunks. non-trivial = distinct (body, filters, partition) with a non-empty chain, a path element (or text filter) present in the body and an interior cut",
        &["bodies are valid UTF-8 (the property's domain)", "the independent span scanner only decides which failures may be listed as known (K1/K2)"],
        started,
        1000,
    )
    .exit_code
}

pub fn replay(_ctx: &Ctx, case: &Value) -> i32 {
    let case: Case = match serde_json::from_value(case.clone()) {
        Ok(c) => c,
        Err(e) => {
            eprintln!("bad case: {e}");
            return 2;
        }
    };
    let body = unhex(&case.body_hex);
    let failures = match guarded(|| {
        let whole = run_chunks(&case.fc, &[&body]);
        check(&body, &case.fc, &whole, &case.cuts)
    }) {
        Err(p) => vec![format!("panic: {p}")],
        Ok(Verdict::Same { .. }) => vec![],
        Ok(Verdict::Differs { class, message, .. }) => vec![format!("[{class}] {message}")],
    };
    super::replay_verdict("C03", failures)
}
