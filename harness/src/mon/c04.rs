//! C04 — body filters never lose, duplicate or reorder response bytes.
//!
//! Conservation monitor at the filter boundary over arbitrary bytes and arbitrary chunking. Filter
//! values are sentinels that cannot occur in the body, so: no chain => out == b; insert-only lists
//! => strip(out) == b; lists with an HTML replace => strip(out) is b minus '<...>'-delimited spans.
//! Fault injection is by input (invalid UTF-8 at every offset); the error state is observed through
//! the hook after every call.

use super::Args;
use crate::bodyfx::*;
use crate::corpus;
use crate::prng::{fnv, mix, Rng};
use crate::report::{finish, Ctx, Report};
use crate::util::{guarded, hex, run_sharded, show, unhex};
use serde::{Deserialize, Serialize};
use serde_json::{json, Value};
use std::collections::HashSet;
use std::time::Instant;

#[derive(Clone, Debug, Serialize, Deserialize)]
pub struct Case {
    pub body_hex: String,
    pub fc: FilterCase,
    pub cuts: Vec<usize>,
}

/// removes the inserted values; a later stage may have inserted its value *inside* the markup inserted by an
/// earlier one (`<i>v1 v2</i>`), so the passes are repeated until nothing changes
fn strip_values(out: &[u8], values: &[String]) -> Vec<u8> {
    let mut values: Vec<&[u8]> = values.iter().map(|v| v.as_bytes()).filter(|v| !v.is_empty()).collect();
    values.sort_by_key(|v| std::cmp::Reverse(v.len()));
    let mut cur = out.to_vec();
    loop {
        let mut res = Vec::with_capacity(cur.len());
        let mut i = 0;
        'outer: while i < cur.len() {
            for v in &values {
                if cur[i..].starts_with(v) {
                    i += v.len();
                    continue 'outer;
                }
            }
            res.push(cur[i]);
            i += 1;
        }
        if res.len() == cur.len() {
            return res;
        }
        cur = res;
    }
}

/// can `s` be obtained from `b` by deleting zero or more substrings that start with '<' and end with '>'
fn is_b_minus_tag_spans(b: &[u8], s: &[u8]) -> bool {
    // reachable (i, j): prefix b[..i] reduced to s[..j]
    let mut seen: HashSet<(usize, usize)> = HashSet::new();
    let mut stack = vec![(0usize, 0usize)];
    let gts: Vec<usize> = b.iter().enumerate().filter(|(_, c)| **c == b'>').map(|(i, _)| i).collect();
    while let Some((i, j)) = stack.pop() {
        if i == b.len() && j == s.len() {
            return true;
        }
        if !seen.insert((i, j)) || seen.len() > 4_000_000 {
            continue;
        }
        if i < b.len() && j < s.len() && b[i] == s[j] {
            stack.push((i + 1, j + 1));
        }
        if i < b.len() && b[i] == b'<' {
            // remaining lengths must match: deleting b[i..=k] leaves b.len()-k-1 bytes for s.len()-j
            for &k in gts.iter().filter(|k| **k > i) {
                if b.len() - k - 1 >= s.len() - j {
                    stack.push((k + 1, j));
                }
            }
        }
    }
    false
}

#[derive(Debug)]
pub enum Verdict {
    Ok { held: usize, error: bool, buffered: bool },
    /// bytes held back before the failing call were dropped
    F4(String),
    /// document ends inside a buffered element: held tail emitted before the buffered content
    F15(String),
    /// context loss between HTML stages at end of stream (same root cause as C03-K1)
    K1(String),
    /// the scanner-based sub-oracle does not apply: scanner and tokenizer segment the body differently
    Unclassifiable,
    Bad(&'static str, String),
}

pub fn check(body: &[u8], fc: &FilterCase, cuts: &[usize]) -> Verdict {
    let run = run_chunks(fc, &split_at(body, cuts));
    let values = fc.values();
    let actions = fc.actions();
    let has_html_replace = fc
        .filters
        .iter()
        .any(|f| f.get("action").and_then(|a| a.as_str()) == Some("replace") && f.get("element_tree").is_some());
    let ok = Verdict::Ok {
        held: run.max_held,
        error: run.error_at.is_some(),
        buffered: run.buffered_element_seen,
    };

    if run.empty_chain {
        return if run.out == body {
            ok
        } else {
            Verdict::Bad("no-filter-not-passthrough", format!("no filter was created but output differs: '{}' vs '{}'", show(&run.out), show(body)))
        };
    }

    let stripped = strip_values(&run.out, &values);

    // sub-oracle: single-chunk delivery, no text filter, no element path starts in b => untouched
    if cuts.is_empty() && !actions.iter().any(|a| a.ends_with("_text")) && run.error_at.is_none() {
        let spans = scan_spans(body);
        let starts: Vec<String> = spans
            .iter()
            .filter_map(|s| match &s.kind {
                SpanKind::StartTag(n) => Some(n.clone()),
                _ => None,
            })
            .collect();
        let any_path_starts = fc.filters.iter().any(|f| {
            f.get("element_tree")
                .and_then(|t| t.as_array())
                .and_then(|t| t.first())
                .and_then(|e| e.as_str())
                .map(|first| starts.iter().any(|s| s == first))
                .unwrap_or(false)
        });
        if !any_path_starts && run.out != body {
            // known class K1 seen through C04: the body ends inside a raw-text / comment construct whose
            // held-back text is handed by end() to the next HTML stage, which re-tokenises it without context
            let html_stages = run.stages.iter().filter(|s| **s == "html").count();
            let stripped_now = strip_values(&run.out, &values);
            let conserved_now = if has_html_replace { is_b_minus_tag_spans(body, &stripped_now) } else { stripped_now == body };
            if !scanner_agrees_with_library(body, &spans) {
                return Verdict::Unclassifiable;
            }
            if has_open_ended_context(&spans) && html_stages >= 2 && conserved_now {
                return Verdict::K1(format!(
                    "single chunk, {} HTML stages, body ends inside a raw-text/comment construct: a value was inserted although no element path starts in the body: '{}'",
                    html_stages,
                    show(&run.out)
                ));
            }
            return Verdict::Bad(
                "no-path-starts-not-passthrough",
                format!("no element path of the filters starts in the body but output differs: '{}' vs '{}'", show(&run.out), show(body)),
            );
        }
    }

    let conserved = if has_html_replace {
        body.len() <= 1500 && is_b_minus_tag_spans(body, &stripped) || body.len() > 1500
    } else {
        stripped == body
    };
    if conserved {
        return ok;
    }

    let describe = || {
        format!(
            "cuts {:?}: output minus inserted values is not the input{}; input '{}' output '{}'",
            cuts,
            if has_html_replace { " minus '<...>' spans" } else { "" },
            show(body),
            show(&run.out)
        )
    };

    // known class F4: exactly the bytes held back before the failing call are missing
    // (only when the input really is something the chain cannot process: here, bytes that are not valid UTF-8 —
    // an error state on a valid UTF-8 body is not this finding, whatever happens to the held bytes)
    if run.error_at.is_some() && !run.held_before_error.is_empty() && std::str::from_utf8(body).is_err() {
        let p = run.out_len_before_error.min(run.out.len());
        let mut repaired = run.out[..p].to_vec();
        repaired.extend_from_slice(&run.held_before_error);
        repaired.extend_from_slice(&run.out[p..]);
        let repaired_stripped = strip_values(&repaired, &values);
        let fixed = if has_html_replace { is_b_minus_tag_spans(body, &repaired_stripped) } else { repaired_stripped == body };
        if fixed {
            return Verdict::F4(format!(
                "the chain entered its error state at call #{} and the {} bytes it was holding back ('{}') are missing from the output; {}",
                run.error_at.unwrap(),
                run.held_before_error.len(),
                show(&run.held_before_error),
                describe()
            ));
        }
    }

    // known class F15: same bytes, only order differs, no error, document ended inside a buffered element
    if run.error_at.is_none() && run.buffered_element_seen && !has_html_replace {
        let mut a = stripped.clone();
        let mut b = body.to_vec();
        a.sort();
        b.sort();
        if a == b {
            return Verdict::F15(format!("bytes reordered at end of stream (document ends inside a buffered element): {}", describe()));
        }
    }

    Verdict::Bad(if has_html_replace { "replace-not-span-deletion" } else { "not-conserved" }, describe())
}

fn record(ctx: &Ctx, body: &[u8], fc: &FilterCase, hash: u64, cuts: &[usize], kind: &str, report: &mut Report) {
    report.eval();
    let case = || {
        serde_json::to_value(Case {
            body_hex: hex(body),
            fc: fc.clone(),
            cuts: cuts.to_vec(),
        })
        .unwrap()
    };
    match guarded(|| check(body, fc, cuts)) {
        Err(panic) => report.library_panic(&panic),
        Ok(Verdict::Ok { held, error, buffered }) => {
            report.count(&format!("runs_{kind}"));
            if held > 0 || error {
                report.nontrivial(mix(hash, fnv(format!("{cuts:?}").as_bytes())));
            }
            if held > 0 {
                report.count("runs_with_bytes_held_back");
            }
            if buffered {
                report.count("runs_with_buffered_element");
            }
            if error {
                report.count("runs_that_entered_the_error_state");
            }
            if report.want_sample() && held > 0 && error {
                report.sample(json!({"body": show(body), "filters": fc.filters, "cuts": cuts, "entered_error_state": error, "max_bytes_held": held}));
            }
        }
        Ok(Verdict::F4(m)) => report.finding(ctx, "C04-F4", m, case()),
        Ok(Verdict::F15(m)) => report.finding(ctx, "C04-F15", m, case()),
        Ok(Verdict::K1(m)) => report.finding(ctx, "C04-K1", m, case()),
        Ok(Verdict::Unclassifiable) => {
            report.count("sub_oracle_skipped_scanner_disagrees_with_tokenizer");
        }
        Ok(Verdict::Bad(class, m)) => report.violation(class, m, case()),
    }
}

fn partitions_for(n: usize, rng: &mut Rng, all_single: bool) -> Vec<(Vec<usize>, &'static str)> {
    let mut v: Vec<(Vec<usize>, &'static str)> = vec![(vec![], "whole")];
    if n > 1 {
        v.push((stride_cuts(n, 1), "byte_at_a_time"));
        v.push((stride_cuts(n, *rng.pick(&[2usize, 3, 5, 7, 10, 16])), "stride"));
    }
    if all_single {
        for c in 0..=n {
            v.push((vec![c], "single_cut"));
        }
    } else {
        for _ in 0..4 {
            v.push((vec![rng.below(n + 1)], "single_cut"));
        }
    }
    for _ in 0..3 {
        v.push((random_cuts(n, rng), "random_cuts"));
    }
    v
}


// ---------------------------------------------------------------------------------------------
// large elements: the target of a buffering filter is hundreds of KB to a few MB long (the answer is known by
// construction, so no DP oracle is needed)

#[derive(Clone, Debug, Serialize, Deserialize)]
pub struct LargeCase {
    pub items: usize,
    /// 0 replace (no selector) | 1 replace (matching selector) | 2 append_child (selector matches nothing: buffered)
    /// | 3 prepend_child (selector matches nothing: buffered) | 4 append_child (no selector: streamed)
    pub variant: u8,
    /// 0 = one chunk, otherwise the chunk size
    pub stride: usize,
}

fn large_parts(items: usize) -> (String, String, String, String, String) {
    let before = "<html><head><title>big</title></head><body><div id=\"pre\">p</div>".to_string();
    let open = "<ul class=\"big\">".to_string();
    let mut content = String::with_capacity(items * 64);
    for i in 0..items {
        content.push_str(&format!("<li class=\"item\" data-n=\"{i}\">item number {i} of the big list</li>\n"));
    }
    let close = "</ul>".to_string();
    let after = "<p>tail</p></body></html>".to_string();
    (before, open, content, close, after)
}

pub fn check_large(case: &LargeCase) -> Result<usize, String> {
    let (before, open, content, close, after) = large_parts(case.items);
    let body = format!("{before}{open}{content}{close}{after}");
    let v = sentinel(1, true);
    let path = ["html", "body", "ul"];
    let (filter, expected) = match case.variant {
        0 => (html_filter("replace", &path, None, &v), format!("{before}{v}{after}")),
        1 => (html_filter("replace", &path, Some("li"), &v), format!("{before}{v}{after}")),
        2 => (html_filter("append_child", &path, Some("span.nomatch"), &v), format!("{before}{open}{content}{v}{close}{after}")),
        3 => (html_filter("prepend_child", &path, Some("span.nomatch"), &v), format!("{before}{open}{v}{content}{close}{after}")),
        _ => (html_filter("append_child", &path, None, &v), format!("{before}{open}{content}{v}{close}{after}")),
    };
    let fc = FilterCase {
        filters: vec![filter],
        headers: vec![("Content-Type".to_string(), "text/html".to_string())],
    };
    let bytes = body.as_bytes();
    let cuts = if case.stride == 0 { Vec::new() } else { stride_cuts(bytes.len(), case.stride) };
    let run = run_chunks(&fc, &split_at(bytes, &cuts));
    if run.out != expected.as_bytes() {
        let common = run.out.iter().zip(expected.as_bytes().iter()).take_while(|(a, b)| a == b).count();
        return Err(format!(
            "target element of {} bytes, variant {}, chunk size {}: output ({} bytes) differs from the input with the one edit applied ({} bytes) at byte {common}: ...'{}' vs ...'{}'",
            open.len() + content.len() + close.len(),
            case.variant,
            case.stride,
            run.out.len(),
            expected.len(),
            show(&run.out[common.saturating_sub(30)..(common + 50).min(run.out.len())]),
            show(&expected.as_bytes()[common.saturating_sub(30)..(common + 50).min(expected.len())])
        ));
    }
    Ok(open.len() + content.len() + close.len())
}

pub fn run(ctx: &Ctx, _args: &Args) -> i32 {
    let started = Instant::now();
    let jobs = ctx.jobs;
    let docs = corpus::html_documents();
    let insert_only = standard_filter_cases(false);
    // replace_text is outside the statement (it replaces the whole body by design)
    let with_replace: Vec<FilterCase> = standard_filter_cases(true)
        .into_iter()
        .filter(|fc| !fc.actions().iter().any(|a| a == "replace_text"))
        .collect();
    let random_bodies: u64 = ctx.tier.pick(300_000, 6_000_000);
    let inject_stride: usize = ctx.tier.pick(1, 1);

    let mut report = run_sharded(jobs, |shard, report| {
        let mut rng = Rng::stream(ctx.seed, shard as u64);
        let mut index = 0usize;
        // (1) corpus x standard lists (with and without replace) x all single cuts etc.
        for doc in &docs {
            for fc in &with_replace {
                index += 1;
                if index % jobs != shard {
                    continue;
                }
                let hash = mix(fnv(doc), fnv(serde_json::to_string(fc).unwrap().as_bytes()));
                for (cuts, kind) in partitions_for(doc.len(), &mut rng, true) {
                    record(ctx, doc, fc, hash, &cuts, kind, report);
                }
            }
        }
        // (1b) no filter can be built (HTML filter on a non-HTML content type, unknown action, empty element path)
        // and the response is declared compressed: the body — really compressed, truncated, or not compressed at
        // all — passes through byte for byte, it is not decoded and re-encoded
        {
            let rejected: Vec<(Vec<Value>, &str)> = vec![
                (vec![html_filter("append_child", &["html", "body"], None, &sentinel(1, true))], "application/json"),
                (vec![html_filter("frobnicate", &["html", "body"], None, &sentinel(1, true))], "text/html"),
                (vec![html_filter("append_child", &[], None, &sentinel(1, true))], "text/html"),
                (vec![html_filter("replace", &["html", "head", "title"], Some("title"), &sentinel(1, true)), html_filter("prepend_child", &["html"], None, &sentinel(2, true))], "text/plain"),
            ];
            for (di, doc) in docs.iter().enumerate() {
                for enc in ["gzip", "deflate", "br", "GZip"] {
                    for (ri, (filters, content_type)) in rejected.iter().enumerate() {
                        index += 1;
                        if index % jobs != shard || (di + ri) % 3 != 0 {
                            continue;
                        }
                        let fc = FilterCase {
                            filters: filters.clone(),
                            headers: vec![("Content-Type".to_string(), content_type.to_string()), ("Content-Encoding".to_string(), enc.to_string())],
                        };
                        let compressed = super::c14::encode(doc, &enc.to_lowercase(), 6, 22);
                        let truncated = compressed[..compressed.len() / 2].to_vec();
                        for body in [&compressed, &truncated, doc] {
                            let hash = mix(fnv(body), fnv(serde_json::to_string(&fc).unwrap().as_bytes()));
                            for (cuts, kind) in partitions_for(body.len().min(64), &mut rng, false).into_iter().take(6) {
                                record(ctx, body, &fc, hash, &cuts, kind, report);
                                report.count("runs_declared_compressed_without_buildable_filter");
                            }
                        }
                    }
                }
            }
        }
        // (1c) a chain without HTML stage (text filters only) on a response that is declared compressed but is not
        // (mislabelled plain body): the decode stage fails internally, the body passes through byte for byte
        {
            let text_only: Vec<Vec<Value>> = vec![
                vec![text_filter("append_text", &sentinel(1, false))],
                vec![text_filter("prepend_text", &sentinel(1, false)), text_filter("append_text", &sentinel(2, false))],
            ];
            for (di, doc) in docs.iter().enumerate() {
                if doc.is_empty() || !doc.is_ascii() {
                    continue;
                }
                for enc in ["gzip", "deflate", "br"] {
                    for (ti, filters) in text_only.iter().enumerate() {
                        index += 1;
                        if index % jobs != shard || (di + ti) % 4 != 0 {
                            continue;
                        }
                        // (brotli accepts almost any prefix as the start of a stream: only gzip / zlib reject a plain
                        // body at once, which is what makes the outcome independent of the chunking)
                        if enc == "br" {
                            continue;
                        }
                        let fc = FilterCase {
                            filters: filters.clone(),
                            headers: vec![("Content-Type".to_string(), "text/html".to_string()), ("Content-Encoding".to_string(), enc.to_string())],
                        };
                        let hash = mix(fnv(doc), fnv(serde_json::to_string(&fc).unwrap().as_bytes()));
                        for (cuts, kind) in partitions_for(doc.len().min(64), &mut rng, false).into_iter().take(5) {
                            report.eval();
                            let run = run_chunks(&fc, &split_at(doc, &cuts));
                            if run.error_at.is_none() {
                                report.count("mislabelled_bodies_the_decoder_did_not_reject");
                                continue;
                            }
                            let chunks = split_at(doc, &cuts);
                            let before_error: usize = chunks.iter().take(run.error_at.unwrap_or(0)).map(|c| c.len()).sum();
                            let header_len = if enc == "gzip" { 10 } else { 2 };
                            if run.out != *doc && before_error > 0 && before_error < header_len && run.out == doc[before_error..] {
                                // known class C04-F4D: header bytes consumed by the decoder in earlier calls are dropped
                                let case = serde_json::to_value(Case { body_hex: hex(doc), fc: fc.clone(), cuts: cuts.clone() }).unwrap();
                                report.finding(ctx, "C04-F4D", format!("{before_error} header bytes consumed before the decoder rejected the body are missing"), case);
                            } else if run.out != *doc {
                                let case = serde_json::to_value(Case { body_hex: hex(doc), fc: fc.clone(), cuts: cuts.clone() }).unwrap();
                                report.violation("not-conserved", format!("{kind} cuts {cuts:?}: the chain failed internally (plain body declared {enc}) but the body did not pass through byte for byte: {} bytes out of {}", run.out.len(), doc.len()), case);
                            } else {
                                report.count("mislabelled_bodies_passed_through_by_a_text_only_chain");
                                report.nontrivial(mix(hash, fnv(format!("{cuts:?}").as_bytes())));
                            }
                        }
                    }
                }
            }
        }
        // (2) fault injection by input: an invalid byte at every offset of every corpus document
        for doc in &docs {
            for (fi, fc) in insert_only.iter().enumerate() {
                for at in (0..=doc.len()).step_by(inject_stride) {
                    index += 1;
                    if index % jobs != shard {
                        continue;
                    }
                    if (at + fi) % 2 == 1 && inject_stride > 1 {
                        continue;
                    }
                    let mut body = doc.clone();
                    body.insert(at, *rng.pick(&[0xffu8, 0xc3, 0x80, 0xf0]));
                    let hash = mix(fnv(&body), fnv(serde_json::to_string(fc).unwrap().as_bytes()));
                    let n = body.len();
                    record(ctx, &body, fc, hash, &[], "inject_whole", report);
                    record(ctx, &body, fc, hash, &stride_cuts(n, 1), "inject_byte_at_a_time", report);
                    record(ctx, &body, fc, hash, &stride_cuts(n, 7), "inject_stride", report);
                    // cuts around the injected byte
                    for c in [at.saturating_sub(3), at, (at + 1).min(n), (at + 4).min(n)] {
                        record(ctx, &body, fc, hash, &[c], "inject_single_cut", report);
                    }
                    record(ctx, &body, fc, hash, &random_cuts(n, &mut rng), "inject_random_cuts", report);
                }
            }
        }
        // (4) large target elements (0.3 - 2.5 MB), answer known by construction
        {
            let rounds = ctx.tier.pick(1usize, 6usize);
            for r in 0..rounds {
                let items = *rng.pick(&[4_000usize, 14_000, 20_000, 33_000]);
                let case = LargeCase {
                    items,
                    variant: ((shard + r) % 5) as u8,
                    stride: *rng.pick(&[0usize, 16_384, 65_536, 1_000_003]),
                };
                report.eval();
                match guarded(|| check_large(&case)) {
                    Err(panic) => report.library_panic(&panic),
                    Ok(Ok(len)) => {
                        report.count("large_element_runs");
                        if len > (1 << 20) {
                            report.count("large_element_runs_over_1_MiB");
                        }
                        report.nontrivial(mix(fnv(format!("{case:?}").as_bytes()), 0x1a46e));
                    }
                    Ok(Err(m)) => report.violation("large-element", m, json!({"large": case})),
                }
            }
        }
        // (3) random: mutated documents (invalid UTF-8 allowed) and arbitrary bytes x random lists
        for _ in 0..(random_bodies / jobs as u64) {
            let body: Vec<u8> = match rng.below(8) {
                0 => (0..rng.range(0, 80)).map(|_| rng.byte()).collect(),
                1 => (0..rng.range(0, 120)).map(|_| *rng.pick(b"<>/!-=\"' abdhiovy\xc3\xa9\xff")).collect(),
                _ => {
                    let base = rng.pick(&docs).clone();
                    let invalid = rng.coin();
                    mutate_body(&base, &mut rng, invalid)
                }
            };
            if contains_sentinel_alphabet(&body) {
                continue;
            }
            let fc = match rng.below(4) {
                0 => rng.pick(&insert_only).clone(),
                1 => rng.pick(&with_replace).clone(),
                _ => random_filter_case(&mut rng, true, false),
            };
            let hash = mix(fnv(&body), fnv(serde_json::to_string(&fc).unwrap().as_bytes()));
            for (cuts, kind) in partitions_for(body.len(), &mut rng, false) {
                record(ctx, &body, &fc, hash, &cuts, kind, report);
            }
            report.count("random_bodies");
        }
    });

    report.exhaustive.insert(
        "per (corpus document, standard filter list): whole, byte-at-a-time, one stride, every single cut 0..=n".to_string(),
        json!({"complete": true, "documents": docs.len(), "filter_lists": with_replace.len()}),
    );
    report.exhaustive.insert(
        format!("invalid byte injected at every {}offset of every corpus document x {} insert-only filter lists x 9 partitions", if inject_stride == 1 { "" } else { "3rd " }, insert_only.len()),
        json!({"complete": inject_stride == 1}),
    );
    report.notes.insert("exhaustive".into(), json!(false));
    if !report.counters.contains_key("runs_that_entered_the_error_state") {
        report.inconclusive("no run entered the error state: the error path is unobserved");
    }

    finish(
        ctx,
        report,
        "bodies: hostile corpus, invalid bytes injected at every offset, mutated documents (invalid UTF-8 allowed), arbitrary bytes; filter values are private-use sentinels absent from every body; filter lists: standard family (insert-only and with HTML replace) + random lists; partitions: whole, byte-at-a-time, strides, every single cut, random k-cuts with empty chunks. non-trivial = distinct (body, filters, partition) during which bytes were actually held back or the error state was entered (both observed through the hooks)",
        &["replace_text is outside the statement (it replaces the whole body by design)", "compressed bodies are C14's subject", "the replace oracle is checked for bodies <= 1500 bytes"],
        started,
        1000,
    )
    .exit_code
}

pub fn replay(_ctx: &Ctx, case: &Value) -> i32 {
    if let Some(l) = case.get("large") {
        let failures = match serde_json::from_value::<LargeCase>(l.clone()) {
            Err(e) => {
                eprintln!("bad case: {e}");
                return 2;
            }
            Ok(lc) => match guarded(|| check_large(&lc)) {
                Err(p) => vec![format!("panic: {p}")],
                Ok(Err(m)) => vec![format!("[large-element] {m}")],
                Ok(Ok(_)) => vec![],
            },
        };
        return super::replay_verdict("C04", failures);
    }
    let case: Case = match serde_json::from_value(case.clone()) {
        Ok(c) => c,
        Err(e) => {
            eprintln!("bad case: {e}");
            return 2;
        }
    };
    let body = unhex(&case.body_hex);
    let failures = match guarded(|| check(&body, &case.fc, &case.cuts)) {
        Err(p) => vec![format!("panic: {p}")],
        Ok(Verdict::Ok { .. }) => vec![],
        Ok(Verdict::F4(m)) => vec![format!("[C04-F4] {m}")],
        Ok(Verdict::F15(m)) => vec![format!("[C04-F15] {m}")],
        Ok(Verdict::K1(m)) => vec![format!("[C04-K1] {m}")],
        Ok(Verdict::Unclassifiable) => vec![],
        Ok(Verdict::Bad(c, m)) => vec![format!("[{c}] {m}")],
    };
    super::replay_verdict("C04", failures)
}
