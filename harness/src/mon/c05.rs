//! C05 — the computed action reflects exactly the matched rules, in priority order.
//!
//! Reference fold written from the statement, compared with `Action::from_routes_rule` + the
//! observable getters, for exhaustive 2-rule lists on a reduced effect grid and random longer lists.
//! Model-free attribution invariants (sentinel values per rule) are checked as well.

use super::c13;
use super::Args;
use crate::bodyfx::FilterCase;
use crate::prng::{fnv_str, Rng};
use crate::report::{finish, Ctx, Report};
use crate::util::{guarded, run_sharded, show};
use crate::world::*;
use redirectionio::action::Action;
use redirectionio::api::Rule;
use redirectionio::http::Header;
use redirectionio::router::{IntoRoute, Route};
use serde::{Deserialize, Serialize};
use serde_json::{json, Value};
use std::collections::BTreeSet;
use std::sync::Arc;
use std::time::Instant;

pub const PROBE_BODY: &str = "<html><head><title>t</title></head><body><p>probe</p></body></html>";
pub const CODES: &[u16] = &[0, 200, 301, 404, 410, 500];

#[derive(Clone, Debug, Serialize, Deserialize)]
pub struct Case {
    pub rules: Vec<RuleSpec>,
    pub sampling_override: Option<bool>,
}

// ---------------------------------------------------------------------------------------------
// reference fold

#[derive(Clone, Debug, PartialEq, Eq)]
pub struct Cond {
    pub codes: Vec<u16>,
    pub exclude: bool,
}

impl Cond {
    pub fn of(e: &Effects) -> Cond {
        Cond {
            codes: e.response_status_codes.clone().unwrap_or_default(),
            exclude: e.exclude_response_status_codes.is_some(),
        }
    }
    pub fn unconditional(&self) -> bool {
        self.codes.is_empty()
    }
    /// admits a code for filters / applied-rule accounting
    pub fn admits(&self, c: u16) -> bool {
        self.codes.is_empty() || (self.exclude != self.codes.contains(&c))
    }
    /// admits a code for the status update itself
    pub fn admits_status(&self, c: u16) -> bool {
        if self.codes.is_empty() {
            c == 0
        } else {
            self.exclude != self.codes.contains(&c)
        }
    }
}

#[derive(Default, Debug)]
pub struct FoldTrace {
    pub reset_taken: bool,
    pub stop_taken: bool,
    pub fallback_built: bool,
    pub sampled_out: u32,
    pub contributing: usize,
}

/// rules contributing to the action, lowest priority first
pub fn contributing<'a>(rules: &'a [RuleSpec], sampling_override: Option<bool>, trace: &mut FoldTrace) -> Vec<&'a RuleSpec> {
    let mut sorted: Vec<&RuleSpec> = rules.iter().collect();
    // (rank desc, id desc): lowest priority first
    sorted.sort_by(|a, b| b.rank.cmp(&a.rank).then_with(|| b.id.cmp(&a.id)));
    let mut list: Vec<&RuleSpec> = Vec::new();
    for r in sorted {
        if let Some(rate) = r.effects.sampling {
            let skip = match sampling_override {
                Some(false) => true,
                Some(true) => false,
                None => rate == 0,
            };
            if skip {
                trace.sampled_out += 1;
                continue;
            }
        }
        if r.effects.reset == Some(true) {
            trace.reset_taken |= !list.is_empty();
            list.clear();
        }
        list.push(r);
        if r.effects.stop == Some(true) {
            trace.stop_taken = true;
            break;
        }
    }
    trace.contributing = list.len();
    list
}

#[derive(Debug, Clone, PartialEq, Eq)]
pub struct StatusChain {
    pub code: u16,
    pub cond: Cond,
    pub rule: String,
    pub fallback: Option<(u16, String)>,
}

pub fn status_chain(list: &[&RuleSpec], trace: &mut FoldTrace) -> Option<StatusChain> {
    let carriers: Vec<&&RuleSpec> = list.iter().filter(|r| r.effects.status_code.unwrap_or(0) != 0).collect();
    let p = carriers.last()?;
    let mut chain = StatusChain {
        code: p.effects.status_code.unwrap(),
        cond: Cond::of(&p.effects),
        rule: p.id.clone(),
        fallback: None,
    };
    if carriers.len() >= 2 {
        let q = carriers[carriers.len() - 2];
        if Cond::of(&q.effects).unconditional() && !chain.cond.unconditional() {
            chain.fallback = Some((q.effects.status_code.unwrap(), q.id.clone()));
            trace.fallback_built = true;
        }
    }
    Some(chain)
}

/// (status, rule applied by the status decision)
pub fn status_at(chain: &Option<StatusChain>, c: u16) -> (u16, Option<String>) {
    match chain {
        None => (0, None),
        Some(ch) => {
            if ch.cond.admits_status(c) {
                (ch.code, Some(ch.rule.clone()))
            } else if c != 0 {
                match &ch.fallback {
                    Some((code, rule)) => (*code, Some(rule.clone())),
                    None => (0, None),
                }
            } else {
                (0, None)
            }
        }
    }
}

#[derive(Debug, Clone)]
pub struct LogChain {
    pub value: bool,
    pub cond: Cond,
    pub rule: String,
    pub fallback: Option<(bool, String)>,
}

pub fn log_chain(list: &[&RuleSpec]) -> Option<LogChain> {
    let carriers: Vec<&&RuleSpec> = list.iter().filter(|r| r.effects.log_override.is_some()).collect();
    let p = carriers.last()?;
    let mut chain = LogChain {
        value: p.effects.log_override.unwrap(),
        cond: Cond::of(&p.effects),
        rule: p.id.clone(),
        fallback: None,
    };
    if carriers.len() >= 2 {
        let q = carriers[carriers.len() - 2];
        if Cond::of(&q.effects).unconditional() && !chain.cond.unconditional() {
            chain.fallback = Some((q.effects.log_override.unwrap(), q.id.clone()));
        }
    }
    Some(chain)
}

/// (decision, rule applied by the log decision)
pub fn log_at(chain: &Option<LogChain>, allow: bool, c: u16) -> (bool, Option<String>) {
    match chain {
        None => (allow, None),
        Some(ch) => {
            if ch.cond.admits(c) {
                (ch.value, Some(ch.rule.clone()))
            } else {
                match &ch.fallback {
                    Some((v, rule)) => (*v, Some(rule.clone())),
                    None => (allow, None),
                }
            }
        }
    }
}

/// header filters kept at code c, in order: (action, header, value)
pub fn header_filters_at(list: &[&RuleSpec], c: u16) -> Vec<(String, String, String)> {
    let mut out = Vec::new();
    for r in list {
        if !Cond::of(&r.effects).admits(c) {
            continue;
        }
        if let Some(t) = &r.effects.target {
            if !t.is_empty() {
                out.push(("override".to_string(), "Location".to_string(), t.clone()));
            }
        }
        for f in &r.effects.header_filters {
            out.push(f.clone());
        }
    }
    out
}

pub fn body_filters_at(list: &[&RuleSpec], c: u16) -> Vec<Value> {
    let mut out = Vec::new();
    for r in list {
        if Cond::of(&r.effects).admits(c) {
            out.extend(r.effects.body_filters.iter().cloned());
        }
    }
    out
}

pub fn admitted_rules(list: &[&RuleSpec], c: u16) -> BTreeSet<String> {
    list.iter().filter(|r| Cond::of(&r.effects).admits(c)).map(|r| r.id.clone()).collect()
}

// ---------------------------------------------------------------------------------------------
// observation of the real action

pub fn build_action(rules: &[RuleSpec], sampling_override: Option<bool>, order: Option<&[usize]>) -> Action {
    let config = Cfg::plain().build();
    let mut q = ReqSpec::get("/a");
    q.sampling_override = sampling_override;
    let request = q.build(&config);
    let mut routes: Vec<Arc<Route<Rule>>> = rules.iter().map(|r| Arc::new(r.to_rule().into_route(&config))).collect();
    if let Some(order) = order {
        routes = order.iter().map(|i| routes[*i].clone()).collect();
    }
    Action::from_routes_rule(routes, &request, None)
}

pub fn input_headers() -> Vec<(String, String)> {
    vec![
        ("Content-Type".to_string(), "text/html".to_string()),
        ("X-Shared".to_string(), "origin".to_string()),
        ("X-Rm".to_string(), "origin".to_string()),
    ]
}

fn to_headers(list: &[(String, String)]) -> Vec<Header> {
    list.iter()
        .map(|(n, v)| Header {
            name: n.clone(),
            value: v.clone(),
        })
        .collect()
}

#[derive(Debug, Clone, PartialEq, Eq, Serialize, Deserialize)]
pub struct Observed {
    pub status_at_request: u16,
    pub final_status: u16,
    pub code_in_use: u16,
    pub headers: Vec<(String, String)>,
    pub rule_ids_header: Vec<String>,
    pub body: Option<String>,
    pub log_true: bool,
    pub log_false: bool,
    pub applied: Vec<String>,
}

/// proxy-order protocol on a fresh clone
pub fn observe(action: &Action, c: u16) -> Observed {
    let mut a = action.clone();
    let s0 = a.get_status_code(0, None);
    let (final_status, code_in_use) = if s0 != 0 { (s0, s0) } else { (a.get_status_code(c, None), c) };
    let mut headers: Vec<(String, String)> = a
        .filter_headers(to_headers(&input_headers()), code_in_use, true, None)
        .into_iter()
        .map(|h| (h.name, h.value))
        .collect();
    let rule_ids_header = match headers.iter().position(|(n, _)| n == "X-RedirectionIo-RuleIds") {
        Some(at) => {
            let (_, v) = headers.remove(at);
            v.split(';').filter(|s| !s.is_empty()).map(|s| s.to_string()).collect()
        }
        None => vec!["<missing header>".to_string()],
    };
    let response_headers = to_headers(&[("Content-Type".to_string(), "text/html".to_string())]);
    let body = a.create_filter_body(code_in_use, &response_headers).map(|mut f| {
        let mut out = f.filter(PROBE_BODY.as_bytes().to_vec(), None);
        out.extend(f.end(None));
        String::from_utf8_lossy(&out).to_string()
    });
    let log_true = a.should_log_request(true, final_status, None);
    let log_false = a.should_log_request(false, final_status, None);
    let mut applied: Vec<String> = a.get_applied_rule_ids().iter().cloned().collect();
    applied.sort();
    Observed {
        status_at_request: s0,
        final_status,
        code_in_use,
        headers,
        rule_ids_header,
        body,
        log_true,
        log_false,
        applied,
    }
}

pub fn expected(rules: &[RuleSpec], sampling_override: Option<bool>, c: u16, trace: &mut FoldTrace) -> Observed {
    let list = contributing(rules, sampling_override, trace);
    let chain = status_chain(&list, trace);
    let logs = log_chain(&list);
    let mut applied: BTreeSet<String> = BTreeSet::new();

    let (s0, r0) = status_at(&chain, 0);
    if let Some(r) = r0 {
        applied.insert(r);
    }
    let (final_status, code_in_use) = if s0 != 0 {
        (s0, s0)
    } else {
        let (s, r) = status_at(&chain, c);
        if let Some(r) = r {
            applied.insert(r);
        }
        (s, c)
    };

    applied.extend(admitted_rules(&list, code_in_use));
    let headers = c13::reference(&input_headers(), &header_filters_at(&list, code_in_use));
    // the rule-ids header lists what has been applied up to the header phase
    let mut rule_ids_header: Vec<String> = applied.iter().cloned().collect();
    rule_ids_header.sort();

    let body_filters = body_filters_at(&list, code_in_use);
    let body = {
        let fc = FilterCase {
            filters: body_filters,
            headers: vec![("Content-Type".to_string(), "text/html".to_string())],
        };
        let mut f = fc.create();
        if f.is_empty() {
            None
        } else {
            let mut out = f.filter(PROBE_BODY.as_bytes().to_vec(), None);
            out.extend(f.end(None));
            Some(String::from_utf8_lossy(&out).to_string())
        }
    };

    let (log_true, lr) = log_at(&logs, true, final_status);
    let (log_false, _) = log_at(&logs, false, final_status);
    if let Some(r) = lr {
        applied.insert(r);
    }

    Observed {
        status_at_request: s0,
        final_status,
        code_in_use,
        headers,
        rule_ids_header,
        body,
        log_true,
        log_false,
        applied: applied.into_iter().collect(),
    }
}

/// model-free attribution: every sentinel visible in headers / body belongs to a contributing rule
/// that admits the code in use; no sentinel of another rule appears
fn attribution(rules: &[RuleSpec], list_ids: &BTreeSet<String>, obs: &Observed) -> Result<(), String> {
    let mut text = String::new();
    for (n, v) in &obs.headers {
        text.push_str(n);
        text.push('=');
        text.push_str(v);
        text.push('\n');
    }
    if let Some(b) = &obs.body {
        text.push_str(b);
    }
    for r in rules {
        let marker = format!("\u{e000}{}\u{e001}", r.id);
        let visible = text.contains(&marker);
        let allowed = list_ids.contains(&r.id) && Cond::of(&r.effects).admits(obs.code_in_use);
        if visible && !allowed {
            return Err(format!(
                "an effect of rule {} is visible at code {} although the rule is not a contributing rule admitting that code",
                r.id, obs.code_in_use
            ));
        }
    }
    Ok(())
}

pub fn check(case: &Case, trace_out: &mut FoldTrace) -> Result<u32, String> {
    let action = build_action(&case.rules, case.sampling_override, None);
    let mut nontrivial = 0u32;
    for &c in CODES {
        let mut trace = FoldTrace::default();
        let want = expected(&case.rules, case.sampling_override, c, &mut trace);
        let mut got = observe(&action, c);
        got.rule_ids_header.sort();
        if got != want {
            return Err(format!("code {c}: observed {got:?}\n  reference fold {want:?}"));
        }
        let list_ids: BTreeSet<String> = contributing(&case.rules, case.sampling_override, &mut FoldTrace::default())
            .iter()
            .map(|r| r.id.clone())
            .collect();
        attribution(&case.rules, &list_ids, &got).map_err(|m| format!("code {c}: {m}; observed {got:?}"))?;

        // each getter alone on a fresh clone
        let mut a = action.clone();
        let list = contributing(&case.rules, case.sampling_override, &mut FoldTrace::default());
        let chain = status_chain(&list, &mut FoldTrace::default());
        let alone = a.get_status_code(c, None);
        if alone != status_at(&chain, c).0 {
            return Err(format!("get_status_code({c}) alone = {alone}, reference {}", status_at(&chain, c).0));
        }
        let mut a = action.clone();
        let logs = log_chain(&list);
        for allow in [true, false] {
            let d = a.should_log_request(allow, c, None);
            if d != log_at(&logs, allow, c).0 {
                return Err(format!("should_log_request({allow}, {c}) alone = {d}, reference {}", log_at(&logs, allow, c).0));
            }
        }
        if trace.contributing >= 2 || trace.reset_taken || trace.stop_taken || trace.fallback_built {
            nontrivial += 1;
        }
        trace_out.reset_taken |= trace.reset_taken;
        trace_out.stop_taken |= trace.stop_taken;
        trace_out.fallback_built |= trace.fallback_built;
        trace_out.sampled_out += trace.sampled_out;
        trace_out.contributing = trace_out.contributing.max(trace.contributing);
    }
    Ok(nontrivial)
}

// ---------------------------------------------------------------------------------------------
// generation

pub fn mark(id: &str) -> String {
    format!("\u{e000}{id}\u{e001}")
}

#[derive(Clone, Copy)]
pub struct Grid {
    pub status: usize,
    pub cond: usize,
    pub flags: usize,
    pub log: usize,
    pub hdr: usize,
    pub body: usize,
    pub sampling: usize,
    pub target: usize,
}

pub const STATUS: &[Option<u16>] = &[None, Some(301), Some(404), Some(0), Some(410)];
pub const CONDS: &[(Option<&[u16]>, Option<bool>)] = &[
    (None, None),
    (Some(&[404]), None),
    (Some(&[404]), Some(true)),
    (Some(&[200, 404]), None),
    (Some(&[]), None),
    // unsorted and repeated code lists
    (Some(&[500, 404]), None),
    (Some(&[500, 200, 404, 404]), Some(true)),
    (Some(&[410, 301, 200]), None),
    // long lists (above any small-size special case), not in ascending order
    (Some(&[404, 410, 400, 401, 403, 500, 502, 503, 504, 429]), None),
    (Some(&[503, 404, 410, 400, 401, 403, 500, 502, 200, 504, 429, 301]), Some(true)),
];
pub const FLAGS: &[(Option<bool>, Option<bool>)] = &[(None, None), (Some(true), None), (None, Some(true)), (Some(false), Some(false)), (Some(true), Some(true))];
pub const LOGS: &[Option<bool>] = &[None, Some(true), Some(false)];
pub const SAMPLINGS: &[Option<u32>] = &[None, Some(0), Some(100)];

pub fn rule_from_grid(id: &str, rank: u16, g: Grid) -> RuleSpec {
    let mut r = RuleSpec::simple(id, "/a");
    r.rank = rank;
    let e = &mut r.effects;
    e.status_code = STATUS[g.status];
    let (codes, ex) = CONDS[g.cond];
    e.response_status_codes = codes.map(|c| c.to_vec());
    e.exclude_response_status_codes = ex;
    let (reset, stop) = FLAGS[g.flags];
    e.reset = reset;
    e.stop = stop;
    e.log_override = LOGS[g.log];
    e.sampling = SAMPLINGS[g.sampling];
    e.target = match g.target {
        0 => Some(format!("/to/{}", mark(id))),
        1 => None,
        _ => Some(String::new()),
    };
    e.header_filters = match g.hdr {
        0 => vec![],
        1 => vec![("override".to_string(), "X-Shared".to_string(), mark(id))],
        2 => vec![("add".to_string(), format!("X-{id}"), mark(id))],
        3 => vec![("remove".to_string(), "X-Rm".to_string(), String::new())],
        // the very same filter in every rule that carries it: identical filters from different rules must all apply
        5 => vec![("add".to_string(), "X-Dup".to_string(), "same".to_string())],
        _ => vec![("default".to_string(), "X-Shared".to_string(), mark(id)), ("replace".to_string(), "x-shared".to_string(), mark(id))],
    };
    e.body_filters = match g.body {
        0 => vec![],
        1 => vec![json!({"action": "append_text", "content": mark(id)})],
        _ => vec![json!({"action": "append_child", "value": format!("<i>{}</i>", mark(id)), "element_tree": ["html", "body"], "css_selector": null})],
    };
    r
}

fn random_grid(rng: &mut Rng) -> Grid {
    Grid {
        status: rng.below(STATUS.len()),
        cond: rng.below(CONDS.len()),
        flags: if rng.chance(1, 2) { 0 } else { rng.below(FLAGS.len()) },
        log: rng.below(LOGS.len()),
        hdr: rng.below(6),
        body: rng.below(3),
        sampling: if rng.chance(2, 3) { 0 } else { rng.below(SAMPLINGS.len()) },
        target: rng.below(3),
    }
}

pub fn random_rules(rng: &mut Rng, n: usize) -> Vec<RuleSpec> {
    let ranks: &[u16] = &[0, 1, 1, 2, 5];
    (0..n)
        .map(|i| {
            let id = format!("r{}", (b'a' + ((i * 7 + rng.below(3)) % 26) as u8) as char);
            rule_from_grid(&format!("{id}{i}"), *rng.pick(ranks), random_grid(rng))
        })
        .collect()
}

fn record(case: &Case, enumerated: bool, report: &mut Report) {
    report.eval();
    let mut trace = FoldTrace::default();
    match guarded(|| check(case, &mut trace)) {
        Err(panic) => report.library_panic(&panic),
        Ok(Err(m)) => report.violation("fold-mismatch", m, serde_json::to_value(case).unwrap()),
        Ok(Ok(nontrivial)) => {
            report.count_n("observations", CODES.len() as u64);
            if nontrivial > 0 {
                if enumerated {
                    for _ in 0..nontrivial {
                        report.nontrivial_enumerated();
                    }
                } else {
                    let h = fnv_str(&serde_json::to_string(case).unwrap());
                    for k in 0..nontrivial {
                        report.nontrivial(h.wrapping_add(k as u64));
                    }
                }
            }
            if trace.reset_taken {
                report.count("lists_where_reset_discarded_rules");
            }
            if trace.stop_taken {
                report.count("lists_where_stop_cut_the_fold");
            }
            if trace.fallback_built {
                report.count("lists_with_conditional_status_over_unconditional_fallback");
            }
            if trace.sampled_out > 0 {
                report.count("lists_with_a_sampled_out_rule");
            }
            if report.want_sample() && trace.contributing >= 3 && trace.fallback_built {
                let a = build_action(&case.rules, case.sampling_override, None);
                report.sample(json!({
                    "rules": case.rules.iter().map(|r| r.to_json()).collect::<Vec<_>>(),
                    "sampling_override": case.sampling_override,
                    "observed_at_404": observe(&a, 404),
                }));
            }
        }
    }
    let _ = show;
}

pub fn run(ctx: &Ctx, _args: &Args) -> i32 {
    let started = Instant::now();
    let jobs = ctx.jobs;
    let random_lists: u64 = ctx.tier.pick(400_000, 6_000_000);

    // reduced grid for the exhaustive 2-rule enumeration
    let mut reduced: Vec<Grid> = Vec::new();
    for status in [0usize, 1, 2] {
        for cond in [0usize, 1, 2] {
            for flags in [0usize, 1, 2] {
                for log in [0usize, 1, 2] {
                    for hdr in [0usize, 1] {
                        for sampling in [0usize, 1, 2] {
                            reduced.push(Grid {
                                status,
                                cond,
                                flags,
                                log,
                                hdr,
                                body: if hdr == 1 && flags == 0 { 1 } else { 0 },
                                sampling,
                                target: if status == 1 { 0 } else { 1 },
                            });
                        }
                    }
                }
            }
        }
    }
    // quick: second rule without the sampling dimension
    let second: Vec<Grid> = if ctx.tier.pick(true, false) { reduced.iter().filter(|g| g.sampling == 0).cloned().collect() } else { reduced.clone() };
    let overrides: &[Option<bool>] = &[None, Some(true), Some(false)];

    let mut report = run_sharded(jobs, |shard, report| {
        let mut index = 0usize;
        for g1 in &reduced {
            for g2 in &second {
                index += 1;
                if index % jobs != shard {
                    continue;
                }
                for (rank1, rank2) in [(1u16, 2u16), (1, 1), (2, 1)] {
                    // sampling override only matters when a rule is sampled
                    let ovs: &[Option<bool>] = if g1.sampling != 0 || g2.sampling != 0 { overrides } else { &overrides[..1] };
                    for ov in ovs {
                        let case = Case {
                            rules: vec![rule_from_grid("ra", rank1, *g1), rule_from_grid("rb", rank2, *g2)],
                            sampling_override: *ov,
                        };
                        record(&case, true, report);
                    }
                }
            }
        }
        let mut rng = Rng::stream(ctx.seed, shard as u64);
        for _ in 0..(random_lists / jobs as u64) {
            let n = rng.range(1, 8);
            let case = Case {
                rules: random_rules(&mut rng, n),
                sampling_override: *rng.pick(overrides),
            };
            record(&case, false, report);
        }
    });

    report.exhaustive.insert(
        format!("all 2-rule lists over a reduced effect grid ({} x {} variants) x 3 rank orders x sampling overrides x {} response codes", reduced.len(), second.len(), CODES.len()),
        json!({"complete": true, "lists": reduced.len() * second.len() * 3}),
    );
    report.notes.insert("exhaustive".into(), json!(false));

    finish(
        ctx,
        report,
        "rule lists built from an effect grid {status none/0/301/404/410} x {condition none/in[404]/ex[404]/in[200,404]/[]} x {reset, stop} x {log none/t/f} x {header filter none/override/add/remove/default+replace} x {body filter none/text/html} x {sampling none/0/100} x {target set/absent/empty}, request sampling override none/t/f; each list is observed at 6 response codes through the proxy-order protocol (get_status_code(0) -> get_status_code(c) -> filter_headers incl. rule-ids header -> create_filter_body on a probe body -> should_log_request x2 -> applied ids) and getter-by-getter on fresh clones. non-trivial = distinct (rule list, code) where >= 2 rules contribute or the model took a reset / stop / fallback branch",
        &["the C13 header reference fold", "exclusion flag in {absent,true}; sampling rates strictly inside (0,100) are random and excluded"],
        started,
        1000,
    )
    .exit_code
}

pub fn replay(_ctx: &Ctx, case: &Value) -> i32 {
    let case: Case = match serde_json::from_value(case.clone()) {
        Ok(c) => c,
        Err(e) => {
            eprintln!("bad case: {e}");
            return 2;
        }
    };
    let failures = match guarded(|| check(&case, &mut FoldTrace::default())) {
        Err(p) => vec![format!("panic: {p}")],
        Ok(Err(m)) => vec![m],
        Ok(Ok(_)) => vec![],
    };
    super::replay_verdict("C05", failures)
}
