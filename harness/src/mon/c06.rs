//! C06 — an action (and a request) survives JSON serialisation unchanged.
//!
//! Round-trip monitor: for actions produced by the real pipeline, de(ser(a)) must be observationally
//! identical (C05 observation protocol at every code) and ser(de(ser(a))) == ser(a); the same through
//! the C JSON entry points. Requests: de(ser(q)) must match the same rules, before and after
//! re-normalisation.

use super::c05::{self, observe, CODES};
use super::Args;
use crate::prng::{fnv_str, Rng};
use crate::report::{finish, Ctx, Report};
use crate::util::{guarded, run_sharded};
use crate::world::*;
use redirectionio::action::Action;
use redirectionio::http::Request;
use redirectionio::router::IntoRoute;
use serde::{Deserialize, Serialize};
use serde_json::{json, Value};
use std::ffi::{CStr, CString};
use std::os::raw::c_char;
use std::time::Instant;

extern "C" {
    fn redirectionio_action_json_deserialize(s: *mut c_char) -> *const Action;
    fn redirectionio_action_json_serialize(a: *mut Action) -> *const c_char;
    fn redirectionio_action_drop(a: *mut Action);
    fn redirectionio_request_json_deserialize(s: *mut c_char) -> *const Request;
    fn redirectionio_request_json_serialize(r: *const Request) -> *const c_char;
    fn redirectionio_request_drop(r: *mut Request);
}

#[derive(Clone, Debug, Serialize, Deserialize)]
pub enum Case {
    Action { rules: Vec<RuleSpec>, sampling_override: Option<bool> },
    /// rules given as raw JSON (hostile effect values: empty / non-ASCII / control characters / long strings,
    /// absent and present optional fields, odd selectors and element paths)
    RawAction { rules: Vec<Value>, sampling_override: Option<bool> },
    Request { world: World, request: ReqSpec },
}

/// serialise -> deserialise through the C entry points; returns the re-serialised string
unsafe fn ffi_action_roundtrip(json: &str) -> Result<String, String> {
    let c = CString::new(json).map_err(|e| e.to_string())?;
    let raw = c.into_raw();
    let action = redirectionio_action_json_deserialize(raw);
    drop(CString::from_raw(raw));
    if action.is_null() {
        return Err("redirectionio_action_json_deserialize returned NULL".to_string());
    }
    let out = redirectionio_action_json_serialize(action as *mut Action);
    let result = if out.is_null() {
        Err("redirectionio_action_json_serialize returned NULL".to_string())
    } else {
        let s = CStr::from_ptr(out).to_string_lossy().to_string();
        drop(CString::from_raw(out as *mut c_char));
        Ok(s)
    };
    redirectionio_action_drop(action as *mut Action);
    result
}

unsafe fn ffi_request_roundtrip(json: &str) -> Result<String, String> {
    let c = CString::new(json).map_err(|e| e.to_string())?;
    let raw = c.into_raw();
    let request = redirectionio_request_json_deserialize(raw);
    drop(CString::from_raw(raw));
    if request.is_null() {
        return Err("redirectionio_request_json_deserialize returned NULL".to_string());
    }
    let out = redirectionio_request_json_serialize(request);
    let result = if out.is_null() {
        Err("redirectionio_request_json_serialize returned NULL".to_string())
    } else {
        let s = CStr::from_ptr(out).to_string_lossy().to_string();
        drop(CString::from_raw(out as *mut c_char));
        Ok(s)
    };
    redirectionio_request_drop(request as *mut Request);
    result
}

pub struct Stats {
    pub has_effects: bool,
    pub json: String,
}

pub fn check_action(rules: &[RuleSpec], sampling_override: Option<bool>) -> Result<Stats, String> {
    check_built_action(c05::build_action(rules, sampling_override, None))
}

/// every rule is `{"source": {"path": "/a"}, ...}`; the request is GET /a
pub fn check_raw_action(rules: &[Value], sampling_override: Option<bool>) -> Result<Stats, String> {
    let config = Cfg::plain().build();
    let mut q = ReqSpec::get("/a");
    q.sampling_override = sampling_override;
    let request = q.build(&config);
    let mut routes = Vec::new();
    for r in rules {
        let text = serde_json::to_string(r).unwrap();
        let rule: redirectionio::api::Rule = serde_json::from_str(&text).map_err(|e| format!("harness: generated rule does not deserialise: {e}: {text}"))?;
        routes.push(std::sync::Arc::new(rule.into_route(&config)));
    }
    check_built_action(Action::from_routes_rule(routes, &request, None))
}

/// values whose edges only appear after substitution (the variable `hv` of every hostile rule expands to "")
const SUBSTITUTED: &[&str] = &["Bearer @hv", "@hv x", " @hv", "@hv", "a @hv b"];

const HOSTILE: &[&str] = &[
    "", " ", "x", "\u{e9}t\u{e9}", "\"q\" \\ back", "nul\u{0}byte", "line\nbreak\ttab\r", "<b>&amp;</b>", "@marker and @a", "\u{1F600}\u{200d}", "\u{7f}\u{1b}[0m",
    "%C3%A9+%20", "{\"json\": [1, null]}", "0", "null", "true",
];

fn hostile(rng: &mut Rng) -> String {
    if rng.chance(1, 10) {
        return rng.pick(SUBSTITUTED).to_string();
    }
    if rng.chance(1, 24) {
        return "long-".repeat(rng.range(40, 400));
    }
    rng.pick(HOSTILE).to_string()
}

fn opt_str(rng: &mut Rng) -> Value {
    match rng.below(3) {
        0 => Value::Null,
        _ => json!(hostile(rng)),
    }
}

/// drop a key or set it to null: both spellings of "absent" must survive
fn put_opt(map: &mut serde_json::Map<String, Value>, rng: &mut Rng, key: &str, v: Value) {
    if v.is_null() && rng.coin() {
        return;
    }
    map.insert(key.to_string(), v);
}

pub fn hostile_rule(rng: &mut Rng, i: usize) -> Value {
    let mut source = serde_json::Map::new();
    source.insert("path".into(), json!("/a"));
    if rng.chance(1, 2) {
        let codes: Vec<u16> = (0..rng.range(0, 4)).map(|_| *rng.pick(&[200u16, 301, 404, 410, 500, 0, 65535])).collect();
        source.insert("response_status_codes".into(), json!(codes));
        if rng.coin() {
            source.insert("exclude_response_status_codes".into(), json!(rng.coin()));
        }
    }
    if rng.chance(1, 6) {
        source.insert("sampling".into(), json!(*rng.pick(&[0u32, 100])));
    }
    let mut rule = serde_json::Map::new();
    let id = match rng.below(6) {
        0 => String::new(),
        1 => format!("\u{c9}-{i}"),
        2 => format!("id \"{i}\""),
        _ => format!("r{i}"),
    };
    rule.insert("id".into(), json!(id));
    rule.insert("rank".into(), json!(rng.below(4)));
    rule.insert("source".into(), Value::Object(source));
    if rng.chance(2, 3) {
        rule.insert("status_code".into(), json!(*rng.pick(&[301u16, 302, 307, 308, 404, 410, 200, 0, 65535])));
    }
    if rng.chance(1, 2) {
        let t = if rng.coin() { format!("/to/{}", hostile(rng)) } else { hostile(rng) };
        rule.insert("target".into(), json!(t));
    }
    let n_h = rng.below(4);
    if n_h > 0 {
        let list: Vec<Value> = (0..n_h)
            .map(|_| {
                let mut m = serde_json::Map::new();
                m.insert("action".into(), json!(*rng.pick(&["add", "remove", "replace", "override", "default", "bogus", ""])));
                m.insert("header".into(), json!(*rng.pick(&["X-A", "x-a", "X-Shared", "", "X-\u{e9}", "Content-Type"])));
                m.insert("value".into(), json!(hostile(rng)));
                let v = opt_str(rng);
                put_opt(&mut m, rng, "id", v);
                let v = opt_str(rng);
                put_opt(&mut m, rng, "target_hash", v);
                Value::Object(m)
            })
            .collect();
        rule.insert("header_filters".into(), json!(list));
    }
    let n_b = rng.below(4);
    if n_b > 0 {
        let list: Vec<Value> = (0..n_b)
            .map(|_| {
                let mut m = serde_json::Map::new();
                if rng.coin() {
                    m.insert("action".into(), json!(*rng.pick(&["append_text", "prepend_text", "replace_text"])));
                    m.insert("content".into(), json!(hostile(rng)));
                } else {
                    m.insert("action".into(), json!(*rng.pick(&["append_child", "prepend_child", "replace", "bogus", ""])));
                    m.insert("value".into(), json!(hostile(rng)));
                    let v = opt_str(rng);
                    put_opt(&mut m, rng, "inner_value", v);
                    let trees: &[&[&str]] = &[&[], &["html", "body"], &["html", "head", "title"], &["html", "body", "p"], &[""], &["html", "\u{e9}l"]];
                    m.insert("element_tree".into(), json!(rng.pick(trees)));
                    let sel = match rng.below(6) {
                        0 | 1 => Value::Null,
                        2 => json!(""),
                        3 => json!("p.x"),
                        4 => json!("[[["),
                        _ => json!("i, b > em"),
                    };
                    put_opt(&mut m, rng, "css_selector", sel);
                }
                let v = opt_str(rng);
                put_opt(&mut m, rng, "id", v);
                let v = opt_str(rng);
                put_opt(&mut m, rng, "target_hash", v);
                Value::Object(m)
            })
            .collect();
        rule.insert("body_filters".into(), json!(list));
    }
    // a request-header variable whose header is absent and whose default is empty: "@hv" expands to ""
    rule.insert("variables".into(), json!([{"name": "hv", "type": {"request_header": {"name": "x-absent-header", "default": ""}}}]));
    if rng.chance(1, 3) {
        rule.insert("log_override".into(), json!(rng.coin()));
    }
    if rng.chance(1, 6) {
        rule.insert("reset".into(), json!(rng.coin()));
    }
    if rng.chance(1, 6) {
        rule.insert("stop".into(), json!(rng.coin()));
    }
    for key in ["redirect_unit_id", "configuration_log_unit_id", "configuration_reset_unit_id", "target_hash"] {
        if rng.chance(1, 4) {
            rule.insert(key.into(), json!(hostile(rng)));
        }
    }
    Value::Object(rule)
}

pub fn check_built_action(a: Action) -> Result<Stats, String> {
    let j = serde_json::to_string(&a).map_err(|e| format!("serialise: {e}"))?;
    let b: Action = serde_json::from_str(&j).map_err(|e| format!("the serialised action does not deserialise: {e}: {j}"))?;
    let j2 = serde_json::to_string(&b).map_err(|e| format!("re-serialise: {e}"))?;
    if j2 != j {
        return Err(format!("ser(de(ser(a))) != ser(a):\n  {j}\n  {j2}"));
    }
    for &c in CODES {
        let oa = observe(&a, c);
        let ob = observe(&b, c);
        if oa != ob {
            return Err(format!("behaviour differs after the JSON round trip at code {c}:\n  original {oa:?}\n  restored {ob:?}\n  json {j}"));
        }
    }
    // alternative header list and probe: single getters at every code
    for &c in CODES {
        let (mut x, mut y) = (a.clone(), b.clone());
        if x.get_status_code(c, None) != y.get_status_code(c, None) {
            return Err(format!("get_status_code({c}) differs after the round trip; json {j}"));
        }
        for allow in [true, false] {
            let (mut x, mut y) = (a.clone(), b.clone());
            if x.should_log_request(allow, c, None) != y.should_log_request(allow, c, None) {
                return Err(format!("should_log_request({allow}, {c}) differs after the round trip; json {j}"));
            }
        }
    }
    // hand-off in the middle of an exchange: the agent has already asked for the request-time status and the
    // log decision (the applied-rule bookkeeping is part of the state that must survive)
    {
        let mut used = a.clone();
        let s0 = used.get_status_code(0, None);
        let code = if s0 != 0 { s0 } else { 404 };
        let _ = used.should_log_request(true, code, None);
        let ju = serde_json::to_string(&used).map_err(|e| format!("serialise used action: {e}"))?;
        let restored: Action = serde_json::from_str(&ju).map_err(|e| format!("the serialised (used) action does not deserialise: {e}: {ju}"))?;
        let ju2 = serde_json::to_string(&restored).map_err(|e| e.to_string())?;
        if ju2 != ju {
            return Err(format!("used action: ser(de(ser(a))) != ser(a):\n  {ju}\n  {ju2}"));
        }
        let applied = |x: &Action| -> Vec<String> {
            let mut v: Vec<String> = x.get_applied_rule_ids().iter().cloned().collect();
            v.sort();
            v
        };
        if applied(&used) != applied(&restored) {
            return Err(format!("applied rule ids lost in the hand-off: {:?} before, {:?} after; json {ju}", applied(&used), applied(&restored)));
        }
        for &c in CODES {
            let (ou, or) = (observe(&used, c), observe(&restored, c));
            if ou != or {
                return Err(format!("behaviour of a used action differs after the JSON round trip at code {c}:\n  original {ou:?}\n  restored {or:?}\n  json {ju}"));
            }
        }
    }
    // the C JSON entry points are thin wrappers: same strings
    let via_ffi = unsafe { ffi_action_roundtrip(&j) }?;
    if via_ffi != j {
        return Err(format!("C json round trip differs:\n  {j}\n  {via_ffi}"));
    }
    let v: Value = serde_json::from_str(&j).unwrap_or(Value::Null);
    let has_effects = v.get("status_code_update").map(|s| !s.is_null()).unwrap_or(false)
        || v.get("header_filters").and_then(|h| h.as_array()).map(|h| !h.is_empty()).unwrap_or(false)
        || v.get("body_filters").and_then(|h| h.as_array()).map(|h| !h.is_empty()).unwrap_or(false);
    Ok(Stats { has_effects, json: j })
}

pub fn check_request(world: &World, q: &ReqSpec) -> Result<bool, String> {
    let router = world.router();
    let config = world.cfg.build();
    for normalised_first in [true, false] {
        let request = if normalised_first { q.build(&config) } else { q.build_raw() };
        let j = serde_json::to_string(&request).map_err(|e| format!("serialise request: {e}"))?;
        let restored: Request = serde_json::from_str(&j).map_err(|e| format!("the serialised request does not deserialise: {e}: {j}"))?;
        let j2 = serde_json::to_string(&restored).map_err(|e| e.to_string())?;
        if j2 != j {
            return Err(format!("request: ser(de(ser(q))) != ser(q):\n  {j}\n  {j2}"));
        }
        // field by field: every public field of a request can be told apart by some rule (exact host / scheme /
        // method rules, header conditions, ip ranges, date-time boundaries with sub-second precision), so
        // "matches the same rules, whatever the rules" means the fields come back as they were
        {
            let pq = |r: &Request| serde_json::to_string(&r.path_and_query_skipped).unwrap_or_default();
            let hs = |r: &Request| r.headers.iter().map(|h| (h.name.clone(), h.value.clone())).collect::<Vec<_>>();
            if pq(&request) != pq(&restored)
                || request.path_and_query != restored.path_and_query
                || request.host != restored.host
                || request.scheme != restored.scheme
                || request.method != restored.method
                || hs(&request) != hs(&restored)
                || request.remote_addr != restored.remote_addr
                || request.created_at != restored.created_at
                || request.sampling_override != restored.sampling_override
            {
                return Err(format!(
                    "a field of the request changed in the JSON round trip: created_at {:?} -> {:?}, remote_addr {:?} -> {:?}, host {:?} -> {:?}, scheme {:?} -> {:?}, method {:?} -> {:?}; json {j}",
                    request.created_at, restored.created_at, request.remote_addr, restored.remote_addr, request.host, restored.host, request.scheme, restored.scheme, request.method, restored.method
                ));
            }
        }
        let matched = router.match_request(&request);
        let before = ids_of(&matched);
        let after = ids_of(&router.match_request(&restored));
        if before != after {
            return Err(format!("request restored from JSON matches {after:?}, original matched {before:?}; json {j}"));
        }
        if normalised_first && !matched.is_empty() {
            // the agent -> proxy hand-off of this very exchange: the action built for the original request and the
            // one built for the restored request are the same action, and it survives its own round trip
            let a = Action::from_routes_rule(matched, &request, None);
            let b = Action::from_routes_rule(router.match_request(&restored), &restored, None);
            let (ja, jb) = (serde_json::to_string(&a).unwrap_or_default(), serde_json::to_string(&b).unwrap_or_default());
            if ja != jb {
                return Err(format!("the action built for the restored request differs from the one built for the original request:\n  {ja}\n  {jb}"));
            }
            check_built_action(a).map_err(|m| format!("action of the matched rules: {m}"))?;
        }
        let before_n = ids_of(&router.match_request(&Request::rebuild_with_config(&config, &request)));
        let after_n = ids_of(&router.match_request(&Request::rebuild_with_config(&config, &restored)));
        if before_n != after_n {
            return Err(format!("after re-normalisation the restored request matches {after_n:?}, original {before_n:?}; json {j}"));
        }
        // optional request fields that are absent stay absent (no reception time, no client address, no sampling
        // override): an older proxy sends such requests, and date/time triggers then see "no time", not "now"
        {
            let mut bare = request.clone();
            bare.created_at = None;
            bare.remote_addr = None;
            bare.sampling_override = None;
            let jb = serde_json::to_string(&bare).map_err(|e| format!("serialise request: {e}"))?;
            let back: Request = serde_json::from_str(&jb).map_err(|e| format!("the serialised request does not deserialise: {e}: {jb}"))?;
            if back.created_at.is_some() || back.remote_addr.is_some() || back.sampling_override.is_some() {
                return Err(format!("absent optional request fields came back filled in: created_at {:?}, remote_addr {:?}, sampling_override {:?}; json {jb}", back.created_at, back.remote_addr, back.sampling_override));
            }
            let (m0, m1) = (ids_of(&router.match_request(&bare)), ids_of(&router.match_request(&back)));
            if m0 != m1 {
                return Err(format!("a request without reception time / client address matches {m0:?}, restored from JSON {m1:?}; json {jb}"));
            }
        }
        // the legacy wire format (older agents): no `path_and_query_v2`; the proxy re-normalises and must match alike
        if let Ok(Value::Object(mut m)) = serde_json::from_str::<Value>(&j) {
            if m.remove("path_and_query_v2").is_some() {
                let legacy_text = Value::Object(m).to_string();
                let legacy: Request = serde_json::from_str(&legacy_text).map_err(|e| format!("a request in the legacy wire format does not deserialise: {e}: {legacy_text}"))?;
                let legacy_n = ids_of(&router.match_request(&Request::rebuild_with_config(&config, &legacy)));
                if legacy_n != before_n {
                    return Err(format!("the request restored from its legacy-format JSON matches {legacy_n:?} after re-normalisation, the original {before_n:?}; json {legacy_text}"));
                }
            }
        }
        let via_ffi = unsafe { ffi_request_roundtrip(&j) }?;
        if via_ffi != j {
            return Err(format!("C json round trip of the request differs:\n  {j}\n  {via_ffi}"));
        }
        if normalised_first && !before.is_empty() {
            return Ok(true);
        }
    }
    Ok(false)
}

fn extra_urls() -> Vec<String> {
    [
        "/a?utm_source=x", "/a?x=1&utm_medium=y", "/A?X=1", "/\u{e9}", "/a?b=%C3%A9", "/a/12?utm_campaign=z&utm_source=y", "/A/B", "/a b", "/a?x=1&y=2&utm_source=s",
    ]
    .iter()
    .map(|s| s.to_string())
    .collect()
}

fn record(case: &Case, report: &mut Report) {
    report.eval();
    let case_json = || serde_json::to_value(case).unwrap();
    match case {
        Case::Action { .. } | Case::RawAction { .. } => match guarded(|| match case {
            Case::Action { rules, sampling_override } => check_action(rules, *sampling_override),
            Case::RawAction { rules, sampling_override } => check_raw_action(rules, *sampling_override),
            _ => unreachable!(),
        }) {
            Err(panic) => report.library_panic(&panic),
            Ok(Err(m)) if m.starts_with("harness:") => report.inconclusive(format!("generated rule rejected by the loader: {m}")),
            Ok(Err(m)) => report.violation("action-roundtrip", m, case_json()),
            Ok(Ok(stats)) => {
                report.count("actions_round_tripped");
                if matches!(case, Case::RawAction { .. }) {
                    report.count("actions_with_hostile_values_round_tripped");
                    if stats.json.contains("\"content\":\"\"") || stats.json.contains("\"value\":\"\"") {
                        report.count("actions_with_empty_filter_value");
                    }
                }
                if stats.has_effects {
                    report.nontrivial(fnv_str(&stats.json));
                }
                if stats.json.contains("\"fallback_status_code\":3") || stats.json.contains("\"fallback_status_code\":4") {
                    report.count("actions_with_fallback_status");
                }
                if stats.json.contains("\"fallback_log_override\":true") || stats.json.contains("\"fallback_log_override\":false") {
                    report.count("actions_with_fallback_log_override");
                }
                if stats.json.contains("\"element_tree\"") {
                    report.count("actions_with_html_body_filter");
                }
                if stats.json.contains("\"content\"") {
                    report.count("actions_with_text_body_filter");
                }
                if report.want_sample() && stats.has_effects && stats.json.len() < 1500 && stats.json.contains("fallback_rule_id\":\"") {
                    report.sample(json!({"action_json": stats.json}));
                }
            }
        },
        Case::Request { world, request } => match guarded(|| check_request(world, request)) {
            Err(panic) => report.library_panic(&panic),
            Ok(Err(m)) => report.violation("request-roundtrip", m, case_json()),
            Ok(Ok(matched)) => {
                report.count("requests_round_tripped");
                if matched {
                    report.count("requests_round_tripped_with_nonempty_match");
                }
            }
        },
    }
}

pub fn run(ctx: &Ctx, _args: &Args) -> i32 {
    let started = Instant::now();
    let jobs = ctx.jobs;
    let n_actions: u64 = ctx.tier.pick(150_000, 3_000_000);
    let n_worlds: u64 = ctx.tier.pick(8_000, 200_000);
    let overrides: &[Option<bool>] = &[None, Some(true), Some(false)];

    let fixtures = crate::fixtures::load();
    let fixture_requests: Vec<ReqSpec> = fixtures.iter().flat_map(|f| f.requests.iter().cloned()).collect();
    let report = run_sharded(jobs, |shard, report| {
        let mut rng = Rng::stream(ctx.seed, shard as u64);
        for _ in 0..(n_actions / jobs as u64) {
            let n = rng.range(0, 6);
            let case = Case::Action {
                rules: c05::random_rules(&mut rng, n),
                sampling_override: *rng.pick(overrides),
            };
            record(&case, report);
        }
        for _ in 0..(n_actions / 2 / jobs as u64) {
            let n = rng.range(1, 5);
            let case = Case::RawAction {
                rules: (0..n).map(|i| hostile_rule(&mut rng, i)).collect(),
                sampling_override: *rng.pick(overrides),
            };
            record(&case, report);
        }
        for _ in 0..(n_worlds / jobs as u64) {
            let world = super::c01::random_world(&mut rng, 8);
            let model = Model::new(&world.cfg, &world.rules);
            let mut probes: Vec<ReqSpec> = probes_for(&model, &mut rng, 1, 3).into_iter().map(|(q, _)| q).collect();
            for _ in 0..3 {
                let mut q = random_request(&mut rng);
                q.url = rng.pick(&extra_urls()).clone();
                q.sampling_override = *rng.pick(overrides);
                probes.push(q);
            }
            // header values that JSON has to escape (quoted strings as in ETags, backslashes, control characters),
            // repeated lines of one header, an empty value
            for q in probes.iter_mut() {
                if rng.chance(1, 4) {
                    let (n, v) = *rng.pick(&[
                        ("If-None-Match", "\"33a64df5\""),
                        ("X-Path", "C:\\dir\\file"),
                        ("X-Ctl", "a\tb\u{1}c"),
                        ("Cookie", "k=\"v\"; j=\\"),
                        ("X-A", "Foo"),
                        ("X-Empty", ""),
                    ]);
                    q.headers.push((n.to_string(), v.to_string()));
                }
            }
            for q in probes {
                record(&Case::Request { world: world.clone(), request: q }, report);
            }
        }
        // the repository's own fixture rule sets with their requests (markers, variables, transformers, filters
        // as real projects write them)
        for (i, fx) in fixtures.iter().enumerate() {
            if i % jobs != shard {
                continue;
            }
            let mut probes = fx.requests.clone();
            for _ in 0..6 {
                probes.push(rng.pick(&fixture_requests).clone());
            }
            for mut q in probes {
                q.sampling_override = *rng.pick(overrides);
                record(&Case::Request { world: fx.world.clone(), request: q }, report);
                report.count("fixture_requests_round_tripped");
            }
        }
    });

    finish(
        ctx,
        report,
        "actions built by Action::from_routes_rule from the C05 effect grid (fallback status, both body-filter variants of the untagged union, optional ids, log override with fallback, empty action) and from rules with hostile effect values (empty, non-ASCII, control and NUL characters, long strings, present/absent/null optional fields, odd selectors and element paths, status 0/65535), observed with the C05 protocol at 6 codes before and after serde_json and C-entry-point round trips; requests from the C01 generator and from the repository's fixture worlds, incl. the action of the matched rules built before and after the request's round trip (+ marketing parameters, upper-case and non-ASCII URLs, IPv6, sub-second timestamps, sampling override) matched before/after the round trip, raw and normalised. non-trivial = distinct serialised action with a status update or at least one filter",
        &["serde_json", "wasm bindings are not compiled on this target (not claimed)"],
        started,
        200,
    )
    .exit_code
}

pub fn replay(_ctx: &Ctx, case: &Value) -> i32 {
    let case: Case = match serde_json::from_value(case.clone()) {
        Ok(c) => c,
        Err(e) => {
            eprintln!("bad case: {e}");
            return 2;
        }
    };
    let failures = match &case {
        Case::Action { rules, sampling_override } => match guarded(|| check_action(rules, *sampling_override)) {
            Err(p) => vec![format!("panic: {p}")],
            Ok(Err(m)) => vec![m],
            Ok(Ok(_)) => vec![],
        },
        Case::RawAction { rules, sampling_override } => match guarded(|| check_raw_action(rules, *sampling_override)) {
            Err(p) => vec![format!("panic: {p}")],
            Ok(Err(m)) => vec![m],
            Ok(Ok(_)) => vec![],
        },
        Case::Request { world, request } => match guarded(|| check_request(world, request)) {
            Err(p) => vec![format!("panic: {p}")],
            Ok(Err(m)) => vec![m],
            Ok(Ok(_)) => vec![],
        },
    };
    super::replay_verdict("C06", failures)
}
