//! C07 — no input makes the library panic, overflow the stack or hang.
//!
//! Panic / abort monitor: every public entry point is driven with grammar-generated and mutated
//! hostile inputs under catch_unwind with a recording panic hook, inside worker *subprocesses* so
//! that aborts (stack overflow, allocation failure, panic in extern "C") are observed as exit status.
//! Children write BEGIN/END markers; the parent attributes a crash to a case and re-runs it alone.
//! A per-child wall-clock watchdog only ever yields "inconclusive".

use super::Args;
use crate::prng::{fnv_str, Rng};
use crate::report::{finish, Ctx, Report};
use crate::util::guarded;
use redirectionio::action::{Action, TraceAction};
use redirectionio::api::{
    Example, ExplainRequestInput, ExplainRequestOutput, ExplainRequestProjectInput, ImpactInput, ImpactOutput, ImpactProjectInput, LegacyLog, Log, Rule, RuleChangeSet, RulesMessage,
    TestExamplesInput, TestExamplesOutput, TestExamplesProjectInput, UnitIdsInput, UnitIdsOutput, UnitIdsProjectInput,
};
use redirectionio::filter::{Buffer, FilterBodyAction};
use redirectionio::http::{Header, PathAndQueryWithSkipped, Request};
use redirectionio::router::Router;
use redirectionio::RouterConfig;
use serde_json::{json, Value};
use std::collections::{BTreeMap, HashSet};
use std::io::Write;
use std::sync::Arc;
use std::time::{Duration, Instant};

/// CPU seconds granted to one case re-run alone after a watchdog firing (cases need milliseconds)
pub const CPU_LIMIT_ALONE: u64 = 120;

pub const FAMILIES: &[&str] = &["rule", "transform", "request", "body", "analysis", "stack", "misc"];

// ---------------------------------------------------------------------------------------------
// hostile material

const HOSTILE_REGEX: &[&str] = &[
    "[0-9]+", ".*", ".+?", "", "(", ")", "[", "[a-", "(?:", "a{1000}", "(a|b|", "\\", "\\p{Ll", "(?P<n>x)", "(?P<marker>x)", "((((((((((a))))))))))", "a**", "[[:alpha:]]", "(?i)x", "^$", "$^", "\u{e9}+",
    "(cat|dog)", "([\\p{Ll}]|\\-)+?", "x{2,1}", "(?:[)]x)", "\\d{99999}", ".{0,1000}.{0,1000}", "(\\?.*)?$", "\u{1f918}", "[a-z]{2}(?P<region>-[a-z]{2})?", "(?P<a>x)|(?P<b>y)", "x)?(y",
];
const HOSTILE_STRINGS: &[&str] = &[
    "", " ", "/", "//", "/a", "/a?b=c", "?", "#", "%", "%zz", "%ff", "\u{0}", "\n", "caf\u{e9}", "\u{1f355}", "@", "@marker", "@@", "a@b", "{}", "[", "`", "\\", "\"", "'", "<", ">", "../..", "mailto:x@y.z",
    "//host/path", "http://", "http://[::1", "https://example.org/x?y=1#f", "javascript:alert(1)", "relative/path", "a b", "\t", "%00", "%2F", "+", "&&", "=&=", "very-long-\u{e9}\u{e9}\u{e9}",
];
const IPS: &[&str] = &["10.0.0.0/8", "10.1.2.3", "::1", "2001:db8::/32", "garbage", "", "10.0.0.0/33", "256.1.1.1", "10.1.2.3/8", "any", "0.0.0.0/0", "fe80::1%eth0"];
const DATES: &[&str] = &["2024-01-10T12:00:00Z", "2024-01-10T12:00:00+25:00", "garbage", "", "2024-13-40T99:99:99Z", "0000-00-00T00:00:00Z", "+262143-01-01T00:00:00Z", "2024-01-10"];
const TIMES: &[&str] = &["08:00:00", "24:00:00", "garbage", "", "8", "23:59:60"];
const HEADER_KINDS: &[&str] = &["is_defined", "is_not_defined", "is_equals", "is_not_equal_to", "contains", "does_not_contain", "ends_with", "starts_with", "match_regex", "unknown", ""];
const TRANSFORMERS: &[&str] = &["camelize", "dasherize", "lowercase", "uppercase", "underscorize", "replace", "slice", "unknown", ""];

fn hs(rng: &mut Rng) -> String {
    match rng.below(12) {
        0 => (0..rng.range(0, 40)).map(|_| char::from_u32(rng.below(0x250) as u32 + 1).unwrap_or('x')).collect(),
        1 => format!("{}{}", rng.pick(HOSTILE_STRINGS), rng.pick(HOSTILE_STRINGS)),
        _ => rng.pick(HOSTILE_STRINGS).to_string(),
    }
}

/// value or null (the value is evaluated first, so it may itself draw from the generator)
macro_rules! opt {
    ($rng:expr, $v:expr $(,)?) => {{
        let value: Value = json!($v);
        if $rng.below(4) == 0 {
            Value::Null
        } else {
            value
        }
    }};
}

fn transformer(rng: &mut Rng) -> Value {
    let kind = rng.pick(TRANSFORMERS).to_string();
    let options = match rng.below(6) {
        0 => Value::Null,
        1 => json!({}),
        2 => json!({"from": hs(rng), "to": hs(rng)}),
        3 => json!({"from": rng.below(12).to_string(), "to": rng.below(12).to_string()}),
        4 => json!({"something": hs(rng), "with": hs(rng)}),
        _ => json!({"from": "3"}),
    };
    json!({"type": opt!(rng, kind), "options": options})
}

fn marker(rng: &mut Rng, name: &str) -> Value {
    let n = rng.below(4);
    json!({"name": name, "regex": rng.pick(HOSTILE_REGEX), "transformers": (0..n).map(|_| transformer(rng)).collect::<Vec<_>>()})
}

fn example(rng: &mut Rng, url_hint: &str) -> Value {
    let url = match rng.below(5) {
        0 => hs(rng),
        1 => format!("http://example.org{url_hint}"),
        _ => url_hint.to_string(),
    };
    let mut e = serde_json::Map::new();
    e.insert("url".into(), json!(url));
    e.insert("method".into(), opt!(rng, *rng.pick(&["GET", "POST", "", "get", "\u{e9}"])));
    e.insert("headers".into(), if rng.coin() { Value::Null } else { json!([{"name": hs(rng), "value": hs(rng)}, {"name": "X-A", "value": "1"}]) });
    if rng.coin() {
        e.insert("datetime".into(), json!(rng.pick(DATES)));
    }
    e.insert("ip_address".into(), opt!(rng, *rng.pick(IPS)));
    e.insert("response_status_code".into(), opt!(rng, *rng.pick(&[0u16, 200, 301, 404, 65535])));
    e.insert("must_match".into(), json!(rng.coin()));
    e.insert("unit_ids_applied".into(), if rng.chance(1, 4) { Value::Null } else { json!(["u1", hs(rng)]) });
    Value::Object(e)
}

pub fn hostile_rule(rng: &mut Rng, id: &str) -> Value {
    let names = ["m", "marker", "a", "ab", "n"];
    let used: Vec<&str> = names.iter().filter(|_| rng.chance(1, 2)).copied().collect();
    let path = match rng.below(5) {
        0 => hs(rng),
        1 => "/a".to_string(),
        _ => format!("/a/{}", used.iter().map(|n| format!("@{n}")).collect::<Vec<_>>().join("/")),
    };
    let mut source = serde_json::Map::new();
    source.insert("path".into(), json!(path));
    if rng.coin() {
        source.insert("query".into(), opt!(rng, hs(rng)));
    }
    if rng.coin() {
        source.insert("scheme".into(), opt!(rng, *rng.pick(&["http", "https", "", "\u{e9}"])));
    }
    if rng.coin() {
        source.insert("host".into(), opt!(rng, if rng.coin() { hs(rng) } else { format!("@{}.example.org", rng.pick(&names)) }));
    }
    if rng.coin() {
        let n = rng.below(3);
        source.insert(
            "ips".into(),
            json!((0..n)
                .map(|_| if rng.coin() { json!({"in_range": rng.pick(IPS)}) } else { json!({"not_in_range": rng.pick(IPS)}) })
                .collect::<Vec<_>>()),
        );
    }
    if rng.coin() {
        source.insert("datetime".into(), json!([[opt!(rng, *rng.pick(DATES)), opt!(rng, *rng.pick(DATES))]]));
    }
    if rng.coin() {
        source.insert("time".into(), json!([[opt!(rng, *rng.pick(TIMES)), opt!(rng, *rng.pick(TIMES))]]));
    }
    if rng.coin() {
        source.insert("weekdays".into(), json!([rng.pick(&["Mon", "monday", "Funday", "", "7"]), "Tue"]));
    }
    if rng.coin() {
        let n = rng.below(3);
        source.insert(
            "headers".into(),
            json!((0..n)
                .map(|_| json!({"type": rng.pick(HEADER_KINDS), "name": if rng.coin() { hs(rng) } else { "X-A".to_string() }, "value": opt!(rng, if rng.coin() { format!("v@{}", rng.pick(&names)) } else { hs(rng) })}))
                .collect::<Vec<_>>()),
        );
    }
    if rng.coin() {
        source.insert("methods".into(), opt!(rng, json!(["GET", hs(rng)])));
    }
    if rng.coin() {
        source.insert("exclude_methods".into(), opt!(rng, rng.coin()));
    }
    if rng.coin() {
        source.insert("response_status_codes".into(), opt!(rng, json!([404, rng.below(70000) % 65536])));
    }
    if rng.coin() {
        source.insert("exclude_response_status_codes".into(), opt!(rng, rng.coin()));
    }
    if rng.chance(1, 4) {
        source.insert("sampling".into(), opt!(rng, *rng.pick(&[0u32, 1, 50, 100, 101, u32::MAX])));
    }

    let target = match rng.below(6) {
        0 => Value::Null,
        1 => json!(hs(rng)),
        2 => json!("mailto:someone@example.org"),
        3 => json!("//other.example.org/x"),
        _ => json!(format!("/t/{}", names.iter().map(|n| format!("@{n}")).collect::<Vec<_>>().join("-"))),
    };
    let mut rule = serde_json::Map::new();
    rule.insert("id".into(), json!(id));
    rule.insert("rank".into(), json!(rng.below(4)));
    rule.insert("source".into(), Value::Object(source));
    rule.insert("target".into(), target);
    rule.insert("status_code".into(), opt!(rng, *rng.pick(&[0u16, 301, 302, 307, 308, 404, 65535])));
    let mut markers: Vec<Value> = used.iter().map(|n| marker(rng, n)).collect();
    if rng.chance(1, 4) {
        let odd_name = hs(rng);
        markers.push(marker(rng, &odd_name));
    }
    rule.insert("markers".into(), json!(markers));
    if rng.chance(1, 3) {
        let kinds = [
            json!({"marker": rng.pick(&names)}),
            json!({"request_header": {"name": hs(rng), "default": opt!(rng, hs(rng))}}),
            json!("request_host"),
            json!("request_method"),
            json!("request_path"),
            json!("request_remote_address"),
            json!("request_scheme"),
            json!("request_time"),
        ];
        let n = rng.range(1, 3);
        rule.insert(
            "variables".into(),
            json!((0..n)
                .map(|_| json!({"name": rng.pick(&names), "type": rng.pick(&kinds), "transformers": [transformer(rng)]}))
                .collect::<Vec<_>>()),
        );
    }
    if rng.coin() {
        rule.insert(
            "header_filters".into(),
            opt!(rng, json!([{"action": rng.pick(&["add", "remove", "replace", "override", "default", "bogus", ""]), "header": hs(rng), "value": format!("{}@m", hs(rng)), "id": opt!(rng, "h1"), "target_hash": opt!(rng, "t")}])),
        );
    }
    if rng.coin() {
        rule.insert(
            "body_filters".into(),
            opt!(
                rng,
                json!([
                    {"action": rng.pick(&["append_child", "prepend_child", "replace", "bogus", ""]), "value": format!("<p>@m{}</p>", hs(rng)), "inner_value": opt!(rng, hs(rng)), "element_tree": if rng.coin() { json!(["html", "body"]) } else { json!([hs(rng), ""]) }, "css_selector": opt!(rng, *rng.pick(&["p", "", "div[", "*", ":not(", "a > b ~ c", "\u{e9}"])), "id": opt!(rng, "b1"), "target_hash": opt!(rng, "t")},
                    {"action": rng.pick(&["append_text", "prepend_text", "replace_text"]), "content": hs(rng), "id": opt!(rng, "b2"), "target_hash": null}
                ]),
            ),
        );
    }
    rule.insert("log_override".into(), opt!(rng, rng.coin()));
    rule.insert("reset".into(), opt!(rng, rng.coin()));
    rule.insert("stop".into(), opt!(rng, rng.coin()));
    if rng.coin() {
        let n = rng.below(3);
        rule.insert("examples".into(), json!((0..n).map(|_| example(rng, "/a/12/x")).collect::<Vec<_>>()));
    }
    rule.insert("redirect_unit_id".into(), opt!(rng, "u-redirect"));
    rule.insert("configuration_log_unit_id".into(), opt!(rng, "u-log"));
    rule.insert("configuration_reset_unit_id".into(), opt!(rng, "u-reset"));
    rule.insert("target_hash".into(), opt!(rng, "th"));
    Value::Object(rule)
}

fn config_json(rng: &mut Rng) -> Value {
    json!({
        "ignore_host_case": rng.coin(), "ignore_header_case": rng.coin(), "ignore_path_and_query_case": rng.coin(),
        "ignore_marketing_query_params": rng.coin(), "pass_marketing_query_params_to_target": rng.coin(), "always_match_any_host": rng.coin(),
        "marketing_query_params": if rng.coin() { json!(["utm_source", "a"]) } else { json!([]) },
    })
}

fn hostile_request(rng: &mut Rng, config: &RouterConfig) -> Request {
    let url = match rng.below(4) {
        0 => hs(rng),
        1 => "/a/12/x?utm_source=1&a=2".to_string(),
        _ => format!("/a/{}/{}", rng.pick(&["12", "abc", "\u{e9}", "%zz", ""]), rng.pick(&["x", "12", "a-b", ""])),
    };
    let mut r = Request::from_config(
        config,
        url,
        if rng.coin() { Some(hs(rng)) } else { None },
        if rng.coin() { Some(rng.pick(&["http", "https", ""]).to_string()) } else { None },
        if rng.coin() { Some(rng.pick(&["GET", "POST", ""]).to_string()) } else { None },
        rng.pick(&[None, Some("10.1.2.3"), Some("::1")]).and_then(|s| s.parse().ok()),
        *rng.pick(&[None, Some(true), Some(false)]),
    );
    for _ in 0..rng.below(3) {
        r.add_header(if rng.coin() { "X-A".to_string() } else { hs(rng) }, hs(rng), rng.coin());
    }
    r.set_created_at(Some(rng.pick(DATES).to_string()));
    r
}

fn hostile_bytes(rng: &mut Rng) -> Vec<u8> {
    match rng.below(5) {
        0 => (0..rng.range(0, 200)).map(|_| rng.byte()).collect(),
        1 => (0..rng.range(0, 300)).map(|_| *rng.pick(b"<>/!-=\"' abdhotyml\xc3\xa9\xff")).collect(),
        _ => {
            let docs = crate::corpus::html_documents();
            let doc = docs[rng.below(docs.len())].clone();
            crate::bodyfx::mutate_body(&doc, rng, true)
        }
    }
}

// ---------------------------------------------------------------------------------------------
// cases (each fully determined by (family, seed))

fn drive_action(action: &mut Action, rng: &mut Rng) {
    for code in [0u16, 200, 404, 65535] {
        let _ = action.get_status_code(code, None);
        let headers = vec![Header { name: hs(rng), value: hs(rng) }, Header { name: "Content-Type".into(), value: "text/html".into() }];
        let _ = action.filter_headers(headers.clone(), code, rng.coin(), None);
        if let Some(mut f) = action.create_filter_body(code, &headers) {
            let body = hostile_bytes(rng);
            let cut = rng.below(body.len() + 1);
            let _ = f.filter(body[..cut].to_vec(), None);
            let _ = f.filter(body[cut..].to_vec(), None);
            let _ = f.end(None);
        }
        let _ = action.should_log_request(rng.coin(), code, None);
    }
    if let Ok(j) = serde_json::to_string(action) {
        let _ = serde_json::from_str::<Action>(&j);
    }
}

fn case_rule(seed: u64) {
    let mut rng = Rng::new(seed);
    let config: RouterConfig = serde_json::from_value(config_json(&mut rng)).unwrap_or_default();
    let mut router = Router::<Rule>::from_config(config.clone());
    let n = rng.range(1, 5);
    let mut rules: Vec<Rule> = Vec::new();
    for i in 0..n {
        let mut v = hostile_rule(&mut rng, &format!("r{i}"));
        if rng.chance(1, 5) {
            // structure-level mutation of the serialised JSON, kept only if it still deserialises
            let mut text = v.to_string().into_bytes();
            for _ in 0..rng.range(1, 3) {
                if text.is_empty() {
                    break;
                }
                let at = rng.below(text.len());
                text[at] = *rng.pick(b"\"{}[],:0a@\\");
            }
            if let Ok(m) = serde_json::from_slice::<Value>(&text) {
                v = m;
            }
        }
        if let Ok(rule) = serde_json::from_value::<Rule>(v) {
            rules.push(rule);
        }
    }
    for r in &rules {
        router.insert(r.clone());
    }
    match rng.below(4) {
        0 => router.cache(None),
        1 => router.cache(Some(0)),
        2 => router.cache(Some(1)),
        _ => router.cache(Some(u64::MAX)),
    }
    for _ in 0..4 {
        let request = hostile_request(&mut rng, &config);
        let rebuilt = Request::rebuild_with_config(&config, &request);
        let routes = router.match_request(&rebuilt);
        let traces = router.trace_request(&request);
        let _ = router.get_route(&rebuilt);
        let _ = serde_json::to_string(&router.get_trace(&request));
        for route in &routes {
            let _ = Action::get_target(route, &rebuilt);
            let _ = route.capture(&rebuilt);
        }
        let _ = TraceAction::from_trace_rules(&traces, &rebuilt);
        let mut action = Action::from_routes_rule(routes, &rebuilt, None);
        drive_action(&mut action, &mut rng);
        if let Ok(j) = serde_json::to_string(&rebuilt) {
            let _ = serde_json::from_str::<Request>(&j);
        }
    }
    // updates
    if let Some(first) = rules.first() {
        let _ = router.remove(&first.id);
        let mut set = HashSet::new();
        set.insert("r1".to_string());
        set.insert("absent".to_string());
        router.batch_remove(&set);
        router.apply_change_set(vec![first.clone()], rules.iter().skip(1).cloned().collect(), set);
        let _ = router.len();
        let message = RulesMessage { rules: rules.clone() };
        if let Ok(j) = serde_json::to_string(&message) {
            let _ = serde_json::from_str::<RulesMessage>(&j);
        }
    }
}

/// matching rules whose markers capture multi-byte text, with hostile transformer chains on markers and
/// variables: the transformers actually run (they only run for rules that match)
fn case_transform(seed: u64) {
    let mut rng = Rng::new(seed);
    let config: RouterConfig = serde_json::from_value(config_json(&mut rng)).unwrap_or_default();
    // (among them captured texts that spell a marker reference, also the marker's own: a value is data, it is never
    // expanded again)
    let captures = ["abc", "a", "", "caf\u{e9}", "\u{65e5}\u{672c}\u{8a9e}", "\u{1f355}x", "x\u{e9}y\u{e9}z", "Hello World", "a-b_c", "fr", "fr-ca", "x", "y", "zab", "x@m", "@h@k@m", "$1@k"];
    // marker expressions that bring their own groups: optional / alternative named groups that do not take part
    // in every match, and an unbalanced expression that still yields a valid overall pattern
    let marker_regexes = [".+?", ".+?", ".+?", "[a-z]{2}(?P<region>-[a-z]{2})?", "(?P<a>x)|(?P<b>y)", "x)?(y", "(?P<opt>z)?[a-z]+", "(a)|(b)|.+"];
    let (re_m, re_h, re_k) = (*rng.pick(&marker_regexes), *rng.pick(&marker_regexes), *rng.pick(&marker_regexes));
    let numeric = |rng: &mut Rng| -> Value {
        let n = rng.range(0, 6);
        json!((0..n)
            .map(|_| {
                let options = match rng.below(5) {
                    0 => json!({"from": rng.below(9).to_string(), "to": rng.below(9).to_string()}),
                    1 => json!({"from": rng.below(9).to_string(), "to": "x"}),
                    2 => json!({"from": "-1", "to": "18446744073709551615"}),
                    3 => json!({"something": rng.pick(&["", "a", "\u{e9}"]), "with": rng.pick(&["", "\u{1f355}", "@m"])}),
                    _ => json!({"from": rng.below(9).to_string()}),
                };
                json!({"type": rng.pick(&["slice", "replace", "camelize", "dasherize", "underscorize", "uppercase", "lowercase"]), "options": options})
            })
            .collect::<Vec<_>>())
    };
    let rule = json!({
        "id": "t1", "rank": 0,
        "source": {"path": "/t/@m", "host": "@h.example.org", "headers": [{"type": "match_regex", "name": "X-T", "value": "v@k"}]},
        "target": "/to/@m/@h/@k/@v1/@v2/@v3/@v4/@v5/@v6/@v7",
        "status_code": 302,
        "markers": [
            {"name": "m", "regex": re_m, "transformers": numeric(&mut rng)},
            {"name": "h", "regex": re_h, "transformers": numeric(&mut rng)},
            {"name": "k", "regex": re_k, "transformers": numeric(&mut rng)}
        ],
        "variables": if rng.coin() { json!([]) } else { json!([
            {"name": "m", "type": {"marker": "m"}, "transformers": numeric(&mut rng)},
            {"name": "h", "type": {"marker": "h"}, "transformers": numeric(&mut rng)},
            {"name": "k", "type": {"marker": "k"}, "transformers": numeric(&mut rng)},
            {"name": "v1", "type": {"request_header": {"name": "X-T", "default": null}}, "transformers": numeric(&mut rng)},
            {"name": "v2", "type": "request_time", "transformers": numeric(&mut rng)},
            {"name": "v3", "type": "request_remote_address", "transformers": numeric(&mut rng)},
            {"name": "v4", "type": "request_host", "transformers": numeric(&mut rng)},
            {"name": "v5", "type": "request_path", "transformers": numeric(&mut rng)},
            {"name": "v6", "type": "request_method"},
            {"name": "v7", "type": "request_scheme"}
        ]) },
        "header_filters": [{"action": "add", "header": "X-O", "value": "@m|@h|@k"}],
        "body_filters": [{"action": "append_text", "content": "@m|@h|@k"}]
    });
    let rule: Rule = match serde_json::from_value(rule) {
        Ok(r) => r,
        Err(_) => return,
    };
    let mut router = Router::<Rule>::from_config(config.clone());
    router.insert(rule);
    if rng.coin() {
        router.cache(None);
    }
    let m = *rng.pick(&captures);
    let h = *rng.pick(&captures);
    let k = *rng.pick(&captures);
    let mut request = Request::from_config(&config, format!("/t/{m}"), Some(format!("{h}.example.org")), None, None, None, None);
    request.add_header("X-T".into(), format!("v{k}"), false);
    // request-derived variables: reception times at the edges of what the date type can hold, odd addresses
    if rng.coin() {
        request.set_created_at(Some(rng.pick(&["+262143-01-01T00:00:00Z", "-262143-01-01T00:00:00Z", "+10000-01-01T00:00:00Z", "9999-12-31T23:59:59Z", "0000-01-01T00:00:00Z", "-0001-12-31T00:00:00Z", "2024-02-29T12:00:00+14:00"]).to_string()));
    }
    if rng.coin() {
        request.remote_addr = rng.pick(&["10.1.2.3", "::1", "::ffff:10.1.2.3", "fe80::1"]).parse().ok();
    }
    let rebuilt = Request::rebuild_with_config(&config, &request);
    let routes = router.match_request(&rebuilt);
    for route in &routes {
        let _ = Action::get_target(route, &rebuilt);
    }
    let mut action = Action::from_routes_rule(routes, &rebuilt, None);
    drive_action(&mut action, &mut rng);
}

fn case_request(seed: u64) {
    let mut rng = Rng::new(seed);
    let config: RouterConfig = serde_json::from_value(config_json(&mut rng)).unwrap_or_default();
    let s = hs(&mut rng);
    let _ = s.parse::<Request>();
    let _ = PathAndQueryWithSkipped::from_config(&config, &s);
    let _ = PathAndQueryWithSkipped::from_static(&s);
    let _ = Request::build_sorted_query(&s);
    let _ = redirectionio::http::sanitize_url(&s);
    let ex: Result<Example, _> = serde_json::from_value(example(&mut rng, "/a/12/x"));
    if let Ok(ex) = ex {
        if let Ok(r) = Request::from_example(&config, &ex) {
            let _ = Request::rebuild_with_config(&config, &r);
        }
    }
    let mut r = hostile_request(&mut rng, &config);
    r.set_created_at(Some(hs(&mut rng)));
    r.set_created_at(None);
    let forwarded = ["for=\"[2001:db8::1]\";proto=https", "for=", "=;=,", "for=\"", ";;;", "for=unknown, for=10.0.0.1:80", "FOR = \" 1.2.3.4 \"", "\u{e9}=\u{e9}"];
    r.add_header("Forwarded".into(), rng.pick(&forwarded).to_string(), false);
    r.add_header("X-Forwarded-For".into(), rng.pick(&["1.2.3.4, garbage,, ::1", ",", "", "[::1]:80"]).to_string(), false);
    r.add_header("User-Agent".into(), hs(&mut rng), false);
    let headers = vec![Header { name: "Location".into(), value: hs(&mut rng) }, Header { name: hs(&mut rng), value: hs(&mut rng) }];
    let action = Action::default();
    let log = Log::from_proxy(&r, 301, &headers, if rng.coin() { Some(&action) } else { None }, &hs(&mut rng), if rng.coin() { 0 } else { u128::MAX }, &hs(&mut rng));
    let _ = serde_json::to_string(&log);
    let legacy: Result<LegacyLog, _> = serde_json::from_value(json!({
        "status_code": 301, "host": opt!(rng, hs(&mut rng)), "method": null, "request_uri": opt!(rng, hs(&mut rng)), "user_agent": null, "referer": null,
        "scheme": null, "use_json": null, "target": opt!(rng, hs(&mut rng)), "rule_id": opt!(rng, "r"),
    }));
    if let Ok(l) = legacy {
        let _ = serde_json::to_string(&Log::from_legacy(l, hs(&mut rng)));
    }
    use trusted_proxies_shim::exercise;
    exercise(&r);
}

mod trusted_proxies_shim {
    // the RequestInformation impl is exercised through the library's own public serialisation only
    pub fn exercise(r: &redirectionio::http::Request) {
        let _ = r.host();
        let _ = r.scheme();
        let _ = r.method();
        let _ = r.header_value("forwarded");
        let _ = r.header_values("x-forwarded-for");
        let _ = r.header_exists("");
        let _ = r.path_and_query();
    }
}

fn compress(body: &[u8], enc: &str) -> Vec<u8> {
    super::c14::encode(body, enc, 6, 22)
}

fn case_body(seed: u64) {
    let mut rng = Rng::new(seed);
    let body = hostile_bytes(&mut rng);
    let n = rng.below(4);
    let filters: Vec<redirectionio::api::BodyFilter> = (0..n)
        .filter_map(|_| {
            let v = if rng.coin() {
                json!({"action": rng.pick(&["append_child", "prepend_child", "replace", "x"]), "value": hs(&mut rng), "inner_value": null, "element_tree": if rng.coin() { json!(["html", "body"]) } else { json!([rng.pick(&["html", "body", "div", "", "\u{e9}"])]) }, "css_selector": opt!(rng, *rng.pick(&["p", "", "div[", "*", ":not(", "a > b ~ c", "[x='"])), "id": null, "target_hash": null})
            } else {
                json!({"action": rng.pick(&["append_text", "prepend_text", "replace_text"]), "content": hs(&mut rng), "id": null, "target_hash": null})
            };
            serde_json::from_value(v).ok()
        })
        .collect();
    let enc = *rng.pick(&["", "gzip", "deflate", "br", "zstd", "GZIP"]);
    let mut headers = vec![Header { name: "Content-Type".into(), value: rng.pick(&["text/html", "TEXT/HTML; charset=x", "application/json", ""]).to_string() }];
    let mut payload = body.clone();
    if !enc.is_empty() {
        headers.push(Header { name: "Content-Encoding".into(), value: enc.to_string() });
        if matches!(enc, "gzip" | "deflate" | "br") {
            payload = compress(&body, enc);
            match rng.below(4) {
                0 => {
                    // truncated stream
                    let keep = rng.below(payload.len() + 1);
                    payload.truncate(keep);
                }
                1 => {
                    // corrupted stream
                    for _ in 0..rng.range(1, 4) {
                        if !payload.is_empty() {
                            let at = rng.below(payload.len());
                            payload[at] ^= 1 << rng.below(8);
                        }
                    }
                }
                2 => payload = body.clone(), // not compressed at all
                _ => {}
            }
        }
    }
    let mut f = FilterBodyAction::new(filters, &headers);
    let _ = f.is_empty();
    let cuts = crate::bodyfx::random_cuts(payload.len(), &mut rng);
    for chunk in crate::bodyfx::split_at(&payload, &cuts) {
        let _ = f.filter(chunk.to_vec(), None);
    }
    let _ = f.end(None);
    let _ = f.end(None);
    let _ = f.filter(vec![1, 2, 3], None);
    // the object is still in the caller's hands after end(): a second, valid stream through the same filter
    // (an embedder that pools filter objects), then garbage again
    if rng.coin() {
        let mut again = FilterBodyAction::new(Vec::new(), &headers);
        let _ = again.end(None);
        let second = if matches!(enc, "gzip" | "deflate" | "br") { compress(&body, enc) } else { body.clone() };
        for target in [&mut f, &mut again] {
            for chunk in second.chunks(rng.range(1, 4096)) {
                let _ = target.filter(chunk.to_vec(), None);
            }
            let _ = target.end(None);
        }
    }
}

fn case_analysis(seed: u64) {
    let mut rng = Rng::new(seed);
    let cfg = config_json(&mut rng);
    let n = rng.range(0, 4);
    let rules: Vec<Value> = (0..n).map(|i| hostile_rule(&mut rng, &format!("r{i}"))).collect();
    let change = json!({"added": [hostile_rule(&mut rng, "rnew")], "updated": rules.iter().take(1).cloned().collect::<Vec<_>>(), "deleted": ["r1", "zzz"]});
    let domains = if rng.coin() { json!([]) } else { json!(["example.org", hs(&mut rng)]) };
    let max_hops = *rng.pick(&[0u8, 1, 5, 255]);
    let ex = example(&mut rng, "/a/12/x");
    let base: Arc<Router<Rule>> = {
        let config: RouterConfig = serde_json::from_value(cfg.clone()).unwrap_or_default();
        let mut router = Router::<Rule>::from_config(config);
        for r in &rules {
            if let Ok(rule) = serde_json::from_value::<Rule>(r.clone()) {
                router.insert(rule);
            }
        }
        Arc::new(router)
    };
    if let Ok(input) = serde_json::from_value::<TestExamplesInput>(json!({"router_config": cfg, "rules": rules, "max_hops": max_hops, "project_domains": domains})) {
        let _ = serde_json::to_string(&TestExamplesOutput::create_result_without_project(input));
    }
    if let Ok(input) = serde_json::from_value::<TestExamplesProjectInput>(json!({"change_set": change, "max_hops": max_hops, "project_domains": domains})) {
        let _ = serde_json::to_string(&TestExamplesOutput::from_project(input, base.clone()));
    }
    if let Ok(input) = serde_json::from_value::<ExplainRequestInput>(json!({"router_config": cfg, "example": ex, "rules": rules, "max_hops": max_hops, "project_domains": domains})) {
        if let Ok(o) = ExplainRequestOutput::create_result_without_project(input) {
            let _ = serde_json::to_string(&o);
        }
    }
    if let Ok(input) = serde_json::from_value::<ExplainRequestProjectInput>(json!({"example": ex, "change_set": change, "max_hops": max_hops, "project_domains": domains})) {
        if let Ok(o) = ExplainRequestOutput::create_result_from_project(input, base.clone()) {
            let _ = serde_json::to_string(&o);
        }
    }
    let action = *rng.pick(&["add", "update", "delete", "bogus"]);
    let impact_id = if rng.coin() { "r0" } else { "rimpact" };
    let rule = hostile_rule(&mut rng, impact_id);
    if let Ok(input) = serde_json::from_value::<ImpactInput>(json!({"router_config": cfg, "max_hops": max_hops, "with_redirection_loop": rng.coin(), "domains": domains, "rule": rule, "action": action, "rules": rules})) {
        let _ = serde_json::to_string(&ImpactOutput::create_result(input));
    }
    if let Ok(input) = serde_json::from_value::<ImpactProjectInput>(json!({"max_hops": max_hops, "with_redirection_loop": rng.coin(), "domains": domains, "rule": rule, "action": action, "change_set": change})) {
        let _ = serde_json::to_string(&ImpactOutput::from_impact_project(input, base.clone()));
    }
    if let Ok(input) = serde_json::from_value::<UnitIdsInput>(json!({"router_config": cfg, "rules": rules})) {
        let _ = serde_json::to_string(&UnitIdsOutput::create_result_without_project(input));
    }
    if let Ok(input) = serde_json::from_value::<UnitIdsProjectInput>(json!({"change_set": change})) {
        let _ = serde_json::to_string(&UnitIdsOutput::create_result_from_project(input, base.clone()));
    }
    let _ = serde_json::from_value::<RuleChangeSet>(change);
}

/// deep / long inputs on a thread with a 256 KiB stack (release profile)
fn case_stack(seed: u64) {
    let mut rng = Rng::new(seed);
    let kind = seed % 6;
    let size: usize = *rng.pick(&[1_000usize, 100_000, 3_000_000, 30_000_000]);
    let doc: Vec<u8> = match kind {
        0 => format!("<html><body><script>{}</script></body></html>", "x<y;".repeat(size / 4)).into_bytes(),
        1 => format!("<html><body><script><!--{}--></script></body></html>", "<script>a</script>".repeat(size.min(3_000_000) / 18)).into_bytes(),
        2 => {
            let depth = (size / 10).min(100_000);
            format!("<html><body>{}x{}</body></html>", "<div>".repeat(depth), "</div>".repeat(depth)).into_bytes()
        }
        3 => format!("<html><body><div {}>x</div></body></html>", (0..(size / 8).min(100_000)).map(|i| format!("a{i}=b")).collect::<Vec<_>>().join(" ")).into_bytes(),
        4 => format!("<html><body><!--{}", "-".repeat(size.min(3_000_000))).into_bytes(),
        _ => format!("<html><body><textarea>{}", "</textare".repeat(size.min(3_000_000) / 9)).into_bytes(),
    };
    let handle = std::thread::Builder::new()
        .stack_size(256 * 1024)
        .spawn(move || {
            let mut t = redirectionio::html::Tokenizer::new(doc.clone());
            let mut n = 0usize;
            while let Ok(tok) = t.next() {
                if tok == redirectionio::html::TokenType::ErrorToken || n > doc.len() + 1 {
                    break;
                }
                n += 1;
            }
            let filters: Vec<redirectionio::api::BodyFilter> = vec![
                serde_json::from_value(json!({"action": "append_child", "value": "<p>x</p>", "inner_value": null, "element_tree": ["html", "body"], "css_selector": "p.nomatch", "id": null, "target_hash": null})).unwrap(),
            ];
            let mut f = FilterBodyAction::new(filters, &[]);
            let _ = f.filter(doc, None);
            let _ = f.end(None);
        })
        .expect("spawn");
    if let Err(e) = handle.join() {
        std::panic::resume_unwind(e);
    }
}

/// many rules of few ranks matching one request, ids of mixed shapes (numeric, alphanumeric, padded, signed,
/// non-ASCII digits): ordering and merging them must not panic, whatever order they are handed over in
fn case_many_rules(rng: &mut Rng) {
    let pool = [
        "2", "10", "1a", "3", "20", "2b", "007", "7", "a1", "A1", "1e3", "0x10", "-1", "+5", " 9", "9 ", "\u{661}\u{662}", "18446744073709551616", "1.5", "", "a", "B", "10a", "01", "1", "11", "100", "z9",
        "9z", "4", "5", "6", "8", "12", "13", "14", "15", "16", "17", "18", "19", "21", "22", "23", "2a", "3c", "4d", "5e", "6f", "30",
    ];
    let n = rng.range(21, 48);
    let mut ids: Vec<&str> = pool.to_vec();
    rng.shuffle(&mut ids);
    let config = RouterConfig::default();
    let mut router = Router::<Rule>::from_config(config.clone());
    for id in ids.iter().take(n) {
        let rule = json!({"id": id, "rank": rng.pick(&[0u16, 0, 0, 1, 65535]), "source": {"path": "/many"}, "status_code": rng.pick(&[301u16, 302, 410]), "target": format!("/t/{}", id.len()),
            "header_filters": [{"action": "override", "header": "X-M", "value": id}]});
        if let Ok(r) = serde_json::from_value::<Rule>(rule) {
            router.insert(r);
        }
    }
    let request = Request::from_config(&config, "/many".to_string(), None, None, None, None, None);
    let mut routes = router.match_request(&request);
    for _ in 0..3 {
        let mut action = Action::from_routes_rule(routes.clone(), &request, None);
        drive_action(&mut action, rng);
        rng.shuffle(&mut routes);
    }
    let _ = router.get_route(&request);
    let _ = serde_json::to_string(&router.get_trace(&request));
}

fn case_misc(seed: u64) {
    let mut rng = Rng::new(seed);
    if rng.chance(1, 10) {
        case_many_rules(&mut rng);
        return;
    }
    let bytes = hostile_bytes(&mut rng);
    let b = Buffer::from_vec(bytes.clone());
    let _ = b.to_vec();
    let d = b.duplicate();
    let _ = d.into_vec();
    let c = b.clone();
    let _ = c.into_vec();
    let _ = b.into_vec();
    let _ = Buffer::from_string(hs(&mut rng)).into_vec();
    let _ = Buffer::default().to_vec();
    // tokenizer accessors on arbitrary bytes
    let mut t = redirectionio::html::Tokenizer::new_fragment(bytes.clone(), rng.pick(&["", "script", "TITLE", "plaintext", "div"]).to_string());
    t.allow_cdata(rng.coin());
    for _ in 0..bytes.len() + 2 {
        match t.next() {
            Ok(redirectionio::html::TokenType::ErrorToken) | Err(_) => break,
            Ok(_) => {
                let _ = t.token().map(|tok| tok.to_string());
                let _ = t.text();
                let _ = t.tag_name();
                let _ = t.tag_attr();
                let _ = t.raw_as_string();
                let _ = t.buffered_as_string();
            }
        }
    }
    let _ = t.err().is_some();
    // header helpers
    let headers = vec![Header { name: hs(&mut rng), value: hs(&mut rng) }, Header { name: "X-A".into(), value: "1".into() }, Header { name: "x-a".into(), value: "2".into() }];
    let _ = Header::create_header_map(headers);
    let cfg: Result<RouterConfig, _> = serde_json::from_value(config_json(&mut rng));
    let _ = cfg.map(|c| {
        use std::hash::{Hash, Hasher};
        let mut h = std::collections::hash_map::DefaultHasher::new();
        c.hash(&mut h);
        h.finish()
    });
}

pub fn run_case(family: &str, seed: u64) {
    match family {
        "rule" => case_rule(seed),
        "transform" => case_transform(seed),
        "request" => case_request(seed),
        "body" => case_body(seed),
        "analysis" => case_analysis(seed),
        "stack" => case_stack(seed),
        _ => case_misc(seed),
    }
}

fn cases_for(tier_quick: bool, family: &str) -> u64 {
    let (q, t) = match family {
        "rule" => (24_000, 240_000),
        "transform" => (40_000, 400_000),
        "request" => (60_000, 600_000),
        "body" => (40_000, 400_000),
        "analysis" => (12_000, 120_000),
        "stack" => (48, 240),
        _ => (40_000, 400_000),
    };
    // secondary engine builds (tools/engines/ovf.sh) run a fraction of the budget: VERIF_CASE_SCALE = percent
    let scale = std::env::var("VERIF_CASE_SCALE").ok().and_then(|s| s.parse::<u64>().ok()).filter(|p| (1..=100).contains(p)).unwrap_or(100);
    let n = if tier_quick { q } else { t };
    (n * scale / 100).max(n.min(48))
}

// ---------------------------------------------------------------------------------------------
// child / parent

/// child mode: rio-mon C07 --child <shard> <nshards> <logfile> [--only <family> <seed>]
pub fn child(ctx: &Ctx, extra: &[String]) -> i32 {
    let shard: u64 = extra.get(1).and_then(|s| s.parse().ok()).unwrap_or(0);
    let nshards: u64 = extra.get(2).and_then(|s| s.parse().ok()).unwrap_or(1);
    let log_path = extra.get(3).cloned().unwrap_or_else(|| "/dev/null".to_string());
    let mut log = std::fs::File::create(&log_path).expect("child log");
    let quick = ctx.tier.pick(true, false);
    let mut panics: BTreeMap<String, (u64, String, u64)> = BTreeMap::new(); // signature -> (count, family, first seed)
    let mut executed: BTreeMap<String, u64> = BTreeMap::new();
    if let Some(pos) = extra.iter().position(|s| s == "--only") {
        let family = extra.get(pos + 1).cloned().unwrap_or_default();
        let seed: u64 = extra.get(pos + 2).and_then(|s| s.parse().ok()).unwrap_or(0);
        let _ = writeln!(log, "BEGIN {family} {seed}");
        let r = guarded(|| run_case(&family, seed));
        let _ = writeln!(log, "END {family} {seed}");
        if let Err(p) = r {
            let _ = writeln!(log, "PANIC {family} {seed} {p}");
            return 1;
        }
        return 0;
    }
    for family in FAMILIES {
        let total = cases_for(quick, family);
        let mut i = shard;
        while i < total {
            let seed = ctx.seed.wrapping_mul(0x9E3779B97F4A7C15).wrapping_add(fnv_str(family)).wrapping_add(i);
            let _ = writeln!(log, "BEGIN {family} {seed}");
            let r = guarded(|| run_case(family, seed));
            let _ = writeln!(log, "END {family} {seed}");
            *executed.entry(family.to_string()).or_insert(0) += 1;
            if let Err(p) = r {
                // signature: source location + message without volatile numbers
                let sig: String = p.chars().map(|c| if c.is_ascii_digit() { '#' } else { c }).collect();
                let sig = format!("{}", crate::report::truncate(&sig, 160));
                let e = panics.entry(sig).or_insert((0, family.to_string(), seed));
                e.0 += 1;
                let _ = writeln!(log, "PANIC {family} {seed} {p}");
            }
            i += nshards;
        }
    }
    let summary = json!({"executed": executed, "panics": panics.iter().map(|(k, (n, f, s))| json!({"signature": k, "count": n, "family": f, "seed": s})).collect::<Vec<_>>()});
    let _ = writeln!(log, "SUMMARY {summary}");
    0
}

fn last_open_case(log: &str) -> Option<(String, u64)> {
    let mut open: Option<(String, u64)> = None;
    for line in log.lines() {
        let mut p = line.split(' ');
        match p.next() {
            Some("BEGIN") => open = Some((p.next().unwrap_or("").to_string(), p.next().and_then(|s| s.parse().ok()).unwrap_or(0))),
            Some("END") => open = None,
            _ => {}
        }
    }
    open
}

/// known-finding id for a panic signature ("file:line: message" with digits masked)
fn classify_panic(sig: &str) -> Option<&'static str> {
    if sig.contains("marker/transformer/slice.rs") {
        return Some("C07-F7");
    }
    if sig.contains("http/request.rs") && sig.contains("AddrParseError") {
        return Some("C07-F8");
    }
    if sig.contains("api/redirection_loop.rs") && sig.contains("unwrap") {
        return Some("C07-F9");
    }
    None
}

pub fn run(ctx: &Ctx, args: &Args) -> i32 {
    if args.extra.first().map(|s| s.as_str()) == Some("--child") {
        return child(ctx, &args.extra);
    }
    let started = Instant::now();
    let exe = std::env::current_exe().expect("current exe");
    let dir = ctx.verif_dir.join("target").join("c07");
    let _ = std::fs::create_dir_all(&dir);
    let nshards = ctx.jobs.max(1);
    let watchdog = Duration::from_secs(ctx.tier.pick(600, 5400));

    let mut children = Vec::new();
    for shard in 0..nshards {
        let log = dir.join(format!("child-{}-{}-{shard}.log", ctx.tier.name(), ctx.seed));
        let _ = std::fs::remove_file(&log);
        let child = std::process::Command::new(&exe)
            .args(["C07", "--tier", ctx.tier.name(), "--seed", &ctx.seed.to_string(), "--verif-dir", &ctx.verif_dir.to_string_lossy(), "--child", &shard.to_string(), &nshards.to_string(), &log.to_string_lossy()])
            .stdout(std::process::Stdio::null())
            .stderr(std::process::Stdio::null())
            .spawn();
        children.push((shard, log, child));
    }

    let mut report = Report::new();
    let mut signatures: BTreeMap<String, (u64, String, u64)> = BTreeMap::new();
    let mut nonterminating_families: std::collections::BTreeSet<String> = std::collections::BTreeSet::new();
    for (shard, log, child) in children {
        let mut child = match child {
            Ok(c) => c,
            Err(e) => {
                report.inconclusive(format!("cannot spawn worker {shard}: {e}"));
                continue;
            }
        };
        let status = loop {
            match child.try_wait() {
                Ok(Some(s)) => break Some(s),
                Ok(None) => {
                    if started.elapsed() > watchdog {
                        let _ = child.kill();
                        let _ = child.wait();
                        break None;
                    }
                    std::thread::sleep(Duration::from_millis(200));
                }
                Err(_) => break None,
            }
        };
        let text = std::fs::read_to_string(&log).unwrap_or_default();
        match status {
            None => {
                // the wall clock only triggers the triage; the verdict is taken on CPU time (a load-independent
                // clock): the open case is re-run alone under `ulimit -t`
                let open = last_open_case(&text);
                let mut decided = false;
                if let Some((family, _)) = &open {
                    if nonterminating_families.contains(family) {
                        // one confirmed non-terminating case of this family is the verdict: the other workers that
                        // hit the watchdog in the same family are not confirmed one by one (120 s of CPU each)
                        report.inconclusive(format!("worker {shard} also exceeded the watchdog while running {open:?}; not triaged: a non-terminating case of family {family} is already reported"));
                        decided = true;
                    }
                }
                if let (false, Some((family, seed))) = (decided, &open) {
                    let alone_log = dir.join(format!("hang-{family}-{seed}.log"));
                    let cmd = format!(
                        "ulimit -t {CPU_LIMIT_ALONE}; exec '{}' C07 --tier {} --seed {} --verif-dir '{}' --child 0 1 '{}' --only {family} {seed}",
                        exe.to_string_lossy(),
                        ctx.tier.name(),
                        ctx.seed,
                        ctx.verif_dir.to_string_lossy(),
                        alone_log.to_string_lossy()
                    );
                    if let Ok(o) = std::process::Command::new("sh").args(["-c", &cmd]).output() {
                        use std::os::unix::process::ExitStatusExt;
                        let finished = std::fs::read_to_string(&alone_log).unwrap_or_default().contains(&format!("END {family} {seed}"));
                        if !finished && matches!(o.status.signal(), Some(24) | Some(9)) {
                            report.violation(
                                "non-termination",
                                format!("case family={family} seed={seed} does not terminate: run alone it was still running after {CPU_LIMIT_ALONE} s of CPU time (a case of this family needs milliseconds)"),
                                json!({"family": family, "seed": seed}),
                            );
                            nonterminating_families.insert(family.clone());
                            decided = true;
                        }
                    }
                }
                if !decided {
                    report.inconclusive(format!("worker {shard} exceeded the wall-clock watchdog ({}s) while running {:?}; the case terminates when run alone under the CPU-time limit: no verdict", watchdog.as_secs(), open));
                }
            }
            Some(s) if !s.success() || !text.contains("SUMMARY ") => {
                // the worker died: attribute to the open case and confirm alone
                match last_open_case(&text) {
                    None => report.inconclusive(format!("worker {shard} died ({s:?}) outside any case (harness problem)")),
                    Some((family, seed)) => {
                        let alone_log = dir.join(format!("alone-{family}-{seed}.log"));
                        let alone = std::process::Command::new(&exe)
                            .args(["C07", "--tier", ctx.tier.name(), "--seed", &ctx.seed.to_string(), "--verif-dir", &ctx.verif_dir.to_string_lossy(), "--child", "0", "1", &alone_log.to_string_lossy(), "--only", &family, &seed.to_string()])
                            .stdout(std::process::Stdio::null())
                            .stderr(std::process::Stdio::piped())
                            .output();
                        let confirmed = match &alone {
                            Ok(o) => !o.status.success() && !std::fs::read_to_string(&alone_log).unwrap_or_default().contains(&format!("END {family} {seed}")),
                            Err(_) => false,
                        };
                        if confirmed {
                            let stderr = alone.map(|o| String::from_utf8_lossy(&o.stderr).to_string()).unwrap_or_default();
                            let what = if stderr.contains("stack overflow") { "stack overflow" } else { "abort" };
                            report.violation(
                                "abort",
                                format!("the process died ({what}, {s:?}) in case family={family} seed={seed}: {}", crate::report::truncate(stderr.trim(), 300)),
                                json!({"family": family, "seed": seed}),
                            );
                        } else {
                            report.inconclusive(format!("worker {shard} died in case {family}/{seed} but the case passes alone (not reproducible; no verdict)"));
                        }
                    }
                }
            }
            Some(_) => {}
        }
        // collect what the worker saw
        for line in text.lines() {
            if let Some(rest) = line.strip_prefix("SUMMARY ") {
                if let Ok(v) = serde_json::from_str::<Value>(rest) {
                    if let Some(ex) = v.get("executed").and_then(|e| e.as_object()) {
                        for (k, n) in ex {
                            report.count_n(&format!("cases_{k}"), n.as_u64().unwrap_or(0));
                            report.evals(n.as_u64().unwrap_or(0));
                        }
                    }
                    for p in v.get("panics").and_then(|p| p.as_array()).cloned().unwrap_or_default() {
                        let sig = p.get("signature").and_then(|s| s.as_str()).unwrap_or("").to_string();
                        let e = signatures.entry(sig).or_insert((0, p.get("family").and_then(|s| s.as_str()).unwrap_or("").to_string(), p.get("seed").and_then(|s| s.as_u64()).unwrap_or(0)));
                        e.0 += p.get("count").and_then(|c| c.as_u64()).unwrap_or(0);
                    }
                }
            }
        }
        let _ = std::fs::remove_file(&log);
    }
    for (sig, (count, family, seed)) in &signatures {
        let case = json!({"family": family, "seed": seed});
        let message = format!("panic ({count} cases, first in family={family} seed={seed}): {sig}");
        match classify_panic(sig) {
            Some(id) => report.finding(ctx, id, message, case),
            None => report.violation("panic", message, case),
        }
    }
    // distinct non-trivial: executed cases are distinct (family, seed) pairs by construction
    let executed = report.evaluations;
    for _ in 0..executed.min(5_000_000) {
        report.nontrivial_enumerated();
    }
    report.sample(json!({"family": "rule", "example_input": hostile_rule(&mut Rng::new(ctx.seed), "r0")}));
    report.sample(json!({"family": "analysis", "example_example": example(&mut Rng::new(ctx.seed), "/a/12/x")}));
    report.notes.insert("distinct_panic_signatures".into(), json!(signatures.len()));
    report.notes.insert(
        "entry_points".into(),
        json!("Rule/RouterConfig/RulesMessage/RuleChangeSet JSON -> insert/remove/batch_remove/apply_change_set/cache(None,0,1,u64::MAX)/match/trace/get_route/get_trace; Request::{from_str,from_config,from_example,rebuild_with_config,set_created_at}; Action::{from_routes_rule,get_target,get_status_code,filter_headers,create_filter_body,should_log_request} and TraceAction; FilterBodyAction on arbitrary bytes/chunking/encodings (valid, truncated, corrupted gzip/deflate/br); Tokenizer + accessors; Log::{from_proxy,from_legacy}; the four analyses in both entry-point families through their JSON input types; Buffer methods; stack-depth documents on a 256 KiB stack; the C entry points with documented-null patterns run in the ffi-driver (see ffi engines)"),
    );

    finish(
        ctx,
        report,
        "grammar-generated hostile inputs per entry-point family (rule, request, body, analysis, stack, misc), then byte-level mutation of the serialised rule JSON (kept only if it still deserialises); every case runs under catch_unwind with a recording panic hook inside one of 16 worker subprocesses (BEGIN/END markers, crash attribution and confirmation alone, wall-clock watchdog => inconclusive). evaluations = executed cases; distinct_nontrivial = executed (family, seed) cases, distinct by construction (capped at 5e6)",
        &["release profile (the shipping profile); the dev-profile recursion depth of the script tokenizer states (F10) is not exercised", "logical step bounds for termination are C16's (tokens) and C19's (hops); here only the watchdog"],
        started,
        1000,
    )
    .exit_code
}

pub fn replay(ctx: &Ctx, case: &Value) -> i32 {
    let family = case.get("family").and_then(|s| s.as_str()).unwrap_or("rule").to_string();
    let seed = case.get("seed").and_then(|s| s.as_u64()).unwrap_or(0);
    // run in a subprocess so that an abort is observed, not suffered
    let exe = std::env::current_exe().expect("exe");
    let log = ctx.verif_dir.join("target").join("c07-replay.log");
    let _ = std::fs::create_dir_all(ctx.verif_dir.join("target"));
    let out = std::process::Command::new(exe)
        .args(["C07", "--verif-dir", &ctx.verif_dir.to_string_lossy(), "--child", "0", "1", &log.to_string_lossy(), "--only", &family, &seed.to_string()])
        .output();
    let text = std::fs::read_to_string(&log).unwrap_or_default();
    let failures = match out {
        Ok(o) if o.status.success() => vec![],
        Ok(o) => vec![format!("case family={family} seed={seed} fails: {:?} {}", o.status, text.lines().filter(|l| l.starts_with("PANIC")).collect::<Vec<_>>().join(" "))],
        Err(e) => vec![format!("cannot run child: {e}")],
    };
    super::replay_verdict("C07", failures)
}
