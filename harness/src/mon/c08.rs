//! C08 — the regex prefix tree answers exactly like a linear scan of its patterns.
//!
//! History + executable model: every op of a history over {insert, remove, retain, cache} is applied
//! to the real `RegexTreeMap` / `UniqueRegexTreeMap` and to a flat list; after every op, for every
//! haystack, `find` must equal the linear scan (as a multiset of values), and `len`, `get`, `iter`
//! must agree with the list. Exhaustive over insertion orders x removal subsets for small sets.

use super::Args;
use crate::prng::{fnv_str, mix, Rng};
use crate::report::{finish, Ctx, Report};
use crate::util::{guarded, permutations, run_sharded};
use redirectionio::regex_radix_tree::{RegexTreeMap, UniqueRegexTreeMap, VerifTree};
use regex::{Regex, RegexBuilder};
use serde::{Deserialize, Serialize};
use serde_json::{json, Value};
use std::cell::RefCell;
use std::collections::{BTreeMap, HashMap};
use std::time::Instant;

// ---------------------------------------------------------------------------------------------
// pattern catalogue (shape produced from rules: regex::escape(literal) interleaved with (?:expr))

pub const E_INT: &str = "[0-9]+";
pub const E_LOW: &str = "([\\p{Ll}]|\\-)+?";
pub const E_LET: &str = "([\\p{Ll}\\p{Lu}\\p{Lt}]|\\-)+?";
pub const E_ANY: &str = ".+?";
pub const E_ALL: &str = ".*";
pub const E_ENUM: &str = "(cat|dog|fish)";
pub const E_TLD: &str = "(com|net|org)";
pub const E_RANGE: &str = "[1-3][0-9]{2,}|4([1-1][0-9]{1,}|[2-9][0-9]*)|[5-9][0-9]{1,}";
pub const E_UUID: &str = "[a-fA-F0-9]{8}-[a-fA-F0-9]{4}-[a-fA-F0-9]{4}-[a-fA-F0-9]{4}-[a-fA-F0-9]{12}";
pub const E_DATE: &str = "([0-9]+)-(0[1-9]|1[012])-(0[1-9]|[12][0-9]|3[01])";
pub const E_EMOJI: &str = "([\\p{Ll}]|\\-|\u{1f918})+?";
pub const E_ANCH: &str = "^(ES|FR|IT)$";
pub const E_EMPTY: &str = "";
pub const E_SPECIAL: &str = "(\\.|\\-|\\+|_|/|=)+?";
pub const E_ESCPAREN: &str = "\\(\\[A\\-Z\\]\\)\\+([\\p{Ll}]|\\-)+?";
pub const E_PCT: &str = "([\\p{Ll}0-9]|%[0-9A-Z]{2})+?";
pub const E_NESTED: &str = "(?:f.+?)";
pub const E_UP: &str = "([A-Z]+?)";
pub const E_RPAREN: &str = "([\\p{Ll}]|_|\\))+?";
pub const E_LPAREN: &str = "([\\p{Ll}]|\\()+?";
pub const E_BSLASH: &str = "([\\p{Ll}]|\\\\)+?";

#[derive(Clone, Debug)]
pub enum Part {
    Lit(&'static str),
    Ex(&'static str),
}
use Part::{Ex, Lit};

pub fn build(parts: &[Part]) -> String {
    let mut s = String::new();
    for p in parts {
        match p {
            Lit(l) => s.push_str(&regex::escape(l)),
            Ex(e) => {
                s.push_str("(?:");
                s.push_str(e);
                s.push(')');
            }
        }
    }
    s
}

/// sample strings accepted by an expression (used to build haystacks; the oracle is the regex crate)
fn samples_for(expr: &str) -> &'static [&'static str] {
    match expr {
        E_INT => &["7", "42", "007"],
        E_LOW => &["abc", "a-b", "\u{e9}t\u{e9}"],
        E_LET => &["Abc", "a-B", "\u{c9}t\u{e9}"],
        E_ANY => &["x", "foo/bar", "a b"],
        E_ALL => &["", "x", "foo/bar?z=1"],
        E_ENUM => &["cat", "dog", "fish"],
        E_TLD => &["com", "org"],
        E_RANGE => &["100", "42", "999", "50"],
        E_UUID => &["123e4567-e89b-12d3-a456-426614174000"],
        E_DATE => &["2020-01-31", "1999-12-01"],
        E_EMOJI => &["a\u{1f918}b", "\u{1f918}", "x-y"],
        E_ANCH => &["ES", "FR"],
        E_EMPTY => &[""],
        E_SPECIAL => &[".", "-+_", "/="],
        E_ESCPAREN => &["([A-Z])+abc", "([A-Z])+a-b"],
        E_PCT => &["a%C3%A9", "abc1"],
        E_NESTED => &["foo", "fx"],
        E_UP => &["A", "XYZ"],
        E_RPAREN => &["a)b", "x_y", ")"],
        E_LPAREN => &["a(b", "(", "xy"],
        E_BSLASH => &["a\\b", "xy"],
        _ => &["x"],
    }
}

pub fn catalogue() -> Vec<Vec<Part>> {
    vec![
        vec![Lit("/a/"), Ex(E_INT)],
        vec![Lit("/a/"), Ex(E_INT), Lit("/c")],
        vec![Lit("/a/"), Ex(E_LOW)],
        vec![Lit("/a/"), Ex(E_LOW), Lit("/c")],
        vec![Lit("/a/b/"), Ex(E_ANY)],
        vec![Lit("/a/b/"), Ex(E_ANY), Lit("/d")],
        vec![Lit("/a/b"), Ex(E_ALL)],
        vec![Lit("/a-b/"), Ex(E_INT)],
        vec![Lit("/a.b/"), Ex(E_INT)],
        vec![Lit("/a(b)/"), Ex(E_INT)],
        vec![Lit("/a(c)/"), Ex(E_ENUM)],
        vec![Lit("/a+b/"), Ex(E_INT), Lit(".html")],
        vec![Lit("/"), Ex(E_ENUM), Lit("/"), Ex(E_INT)],
        vec![Lit("/"), Ex(E_ENUM), Lit("/"), Ex(E_LOW)],
        vec![Lit("/"), Ex(E_ENUM)],
        vec![Lit("/"), Ex(E_TLD), Lit("/x")],
        vec![Ex(E_ANY), Lit("/end")],
        vec![Ex(E_ALL)],
        vec![Lit("/r/"), Ex(E_RANGE)],
        vec![Lit("/r/"), Ex(E_RANGE), Lit("/"), Ex(E_RANGE)],
        vec![Lit("/u/"), Ex(E_UUID)],
        vec![Lit("/u/"), Ex(E_DATE), Lit("/"), Ex(E_INT)],
        vec![Lit("/\u{e9}/"), Ex(E_INT)],
        vec![Lit("/\u{e9}t/"), Ex(E_INT)],
        vec![Lit("/\u{65e5}\u{672c}/"), Ex(E_LOW)],
        vec![Lit("/\u{65e5}\u{672a}/"), Ex(E_LOW)],
        vec![Lit("/emoji/"), Ex(E_EMOJI)],
        vec![Lit("/emoji/"), Ex(E_EMOJI), Lit("/\u{1f918}")],
        vec![Lit("/c/"), Ex(E_ANCH)],
        vec![Lit("/e"), Ex(E_EMPTY), Lit("/x")],
        vec![Lit("/e"), Ex(E_EMPTY), Lit("/y"), Ex(E_INT)],
        vec![Lit("/s/"), Ex(E_SPECIAL)],
        vec![Lit("/s/"), Ex(E_ESCPAREN)],
        vec![Lit("/A/"), Ex(E_UP)],
        vec![Lit("/a/"), Ex(E_UP)],
        vec![Lit("/p/"), Ex(E_PCT), Lit("?q="), Ex(E_INT)],
        vec![Lit("/p/"), Ex(E_PCT)],
        vec![Lit("/n/"), Ex(E_NESTED)],
        vec![Lit("/a/"), Ex(E_INT), Lit("/"), Ex(E_INT)],
        vec![Lit("/a/"), Ex(E_INT), Lit("-"), Ex(E_INT)],
        vec![Lit("/w/"), Ex(E_RPAREN), Lit("/edit")],
        vec![Lit("/w/"), Ex(E_RPAREN), Lit("/history")],
        vec![Lit("/w/"), Ex(E_LPAREN), Lit("/a")],
        vec![Lit("/w/"), Ex(E_LPAREN), Lit("/b")],
        vec![Lit("/w)/"), Ex(E_INT)],
        vec![Lit("/w)/"), Ex(E_ENUM)],
        vec![Lit("/w(/"), Ex(E_INT), Lit(")")],
        vec![Lit("/w(/"), Ex(E_ENUM), Lit(")")],
        vec![Lit("/w\\/"), Ex(E_BSLASH), Lit("/a")],
        vec![Lit("/w\\/"), Ex(E_BSLASH), Lit("/b")],
        // a literal backslash immediately followed by a marker group
        vec![Lit("/dir\\"), Ex(E_LOW), Lit("/a")],
        vec![Lit("/dir\\"), Ex(E_LOW), Lit("/b")],
        vec![Lit("/dir\\"), Ex(E_INT)],
        vec![Lit("/d\\\\"), Ex(E_ENUM), Lit("\\x")],
        vec![Lit("/d\\\\"), Ex(E_ENUM), Lit("\\y")],
    ]
}

/// extended-shape patterns (not produced by the rule builder's documented marker families):
/// unescaped parentheses inside character classes.
pub fn extended_catalogue() -> Vec<String> {
    vec![
        "/x/(?:[)]x)".to_string(),
        "/x/(?:[)]y)".to_string(),
        "/x/(?:[(]y)".to_string(),
        "/x/(?:[^)]+)/z".to_string(),
        "/x/(?:[^)]+)/w".to_string(),
        "/x/(?:[(][0-9]+[)])".to_string(),
        "/y/(?:[]()]+)a".to_string(),
        "/y/(?:[]()]+)b".to_string(),
        "/y/(?:[^]()]+)c".to_string(),
        "/y/(?:[^]()]+)d".to_string(),
        "/z/(?:[[:alpha:]()]+)a".to_string(),
        "/z/(?:[[:alpha:]()]+)b".to_string(),
        "/z/(?:[a-z&&[^()]]+)1".to_string(),
        "/z/(?:[a-z&&[^()]]+)2".to_string(),
        "/q/(?:[\\]()]+)a".to_string(),
        "/q/(?:[\\]()]+)b".to_string(),
        "/q/(?:[\\[(]+)c".to_string(),
        "/q/(?:[\\[(]+)d".to_string(),
    ]
}

fn instantiate(parts: &[Part], rng: &mut Rng) -> String {
    let mut s = String::new();
    for p in parts {
        match p {
            Lit(l) => s.push_str(l),
            Ex(e) => s.push_str(*rng.pick(samples_for(e))),
        }
    }
    s
}

fn mutate_str(s: &str, rng: &mut Rng) -> String {
    let chars: Vec<char> = s.chars().collect();
    if chars.is_empty() {
        return "x".to_string();
    }
    let mut out = chars.clone();
    let at = rng.below(out.len());
    match rng.below(5) {
        0 => {
            out.remove(at);
        }
        1 => out.insert(at, *rng.pick(&['x', '/', '-', '0', '\u{e9}'])),
        2 => out[at] = *rng.pick(&['x', '/', '-', '0', 'Z']),
        3 => {
            // case swap of everything
            out = out
                .iter()
                .map(|c| if c.is_lowercase() { c.to_uppercase().next().unwrap() } else { c.to_lowercase().next().unwrap() })
                .collect();
        }
        _ => out.truncate(at),
    }
    out.into_iter().collect()
}

pub fn haystacks_for(parts_list: &[&Vec<Part>], rng: &mut Rng, max: usize) -> Vec<String> {
    let mut out: Vec<String> = Vec::new();
    for parts in parts_list {
        for _ in 0..2 {
            out.push(instantiate(parts, rng));
        }
    }
    let base = out.clone();
    for s in &base {
        out.push(mutate_str(s, rng));
    }
    out.push(String::new());
    out.push("/".to_string());
    out.sort();
    out.dedup();
    rng.shuffle(&mut out);
    out.truncate(max);
    out
}

// ---------------------------------------------------------------------------------------------
// cases

#[derive(Clone, Debug, Serialize, Deserialize)]
pub enum Op {
    Insert { p: String, id: String, v: u32 },
    Remove { id: String },
    /// retain everything whose id is not in `drop`
    Retain { drop: Vec<String> },
    Cache { limit: u64, level: Option<u64> },
}

#[derive(Clone, Debug, Serialize, Deserialize)]
pub struct Case {
    pub ignore_case: bool,
    /// drive UniqueRegexTreeMap (id = pattern) instead of RegexTreeMap
    pub unique: bool,
    pub ops: Vec<Op>,
    pub haystacks: Vec<String>,
}

thread_local! {
    static ORACLE: RefCell<HashMap<(String, bool), Option<Regex>>> = RefCell::new(HashMap::new());
    static MATCHES: RefCell<HashMap<(String, bool, String), bool>> = RefCell::new(HashMap::new());
}

/// linear-scan oracle: does ^p$ match s (memoised; compiled with the regex crate directly)
pub fn oracle_match(p: &str, ic: bool, s: &str) -> bool {
    let key = (p.to_string(), ic, s.to_string());
    if let Some(v) = MATCHES.with(|m| m.borrow().get(&key).copied()) {
        return v;
    }
    let result = ORACLE.with(|o| {
        let mut o = o.borrow_mut();
        let re = o
            .entry((p.to_string(), ic))
            .or_insert_with(|| RegexBuilder::new(&format!("^(?:{p})$")).case_insensitive(ic).build().ok());
        match re {
            Some(re) => re.is_match(s),
            None => false,
        }
    });
    MATCHES.with(|m| {
        let mut m = m.borrow_mut();
        if m.len() > 2_000_000 {
            m.clear();
        }
        m.insert(key, result);
    });
    result
}

#[derive(Default)]
pub struct Obs {
    pub max_depth: usize,
    pub max_nodes: usize,
    pub shapes: Vec<u64>,
    pub finds: u64,
    pub deep_finds: u64,
    pub uncompilable_nodes: u64,
    pub prefix_invariant_broken: u64,
    pub cache_states: Vec<(usize, usize)>,
}

fn tree_stats(t: &VerifTree, depth: usize, prefix_stack: &mut Vec<String>, obs: &mut TreeStats) {
    match t {
        VerifTree::Empty { .. } => {}
        VerifTree::Node {
            prefix,
            regex,
            compiled,
            ignore_case,
            children,
        } => {
            obs.nodes += 1;
            obs.total += 1;
            if *compiled {
                obs.compiled += 1;
            }
            obs.depth = obs.depth.max(depth + 1);
            obs.shape = mix(obs.shape, mix(fnv_str(prefix), depth as u64 + 17));
            if RegexBuilder::new(regex).case_insensitive(*ignore_case).build().is_err() {
                obs.uncompilable += 1;
            }
            prefix_stack.push(prefix.clone());
            for c in children {
                tree_stats(c, depth + 1, prefix_stack, obs);
            }
            prefix_stack.pop();
        }
        VerifTree::Leaf {
            pattern,
            regex,
            compiled,
            ignore_case,
            ids,
        } => {
            obs.total += 1;
            if *compiled {
                obs.compiled += 1;
            }
            obs.depth = obs.depth.max(depth + 1);
            obs.shape = mix(obs.shape, mix(fnv_str(pattern), depth as u64 + 91));
            obs.shape = mix(obs.shape, ids.len() as u64);
            if RegexBuilder::new(regex).case_insensitive(*ignore_case).build().is_err() {
                obs.uncompilable += 1;
            }
            for p in prefix_stack.iter() {
                if !pattern.starts_with(p.as_str()) {
                    obs.prefix_broken += 1;
                }
            }
        }
    }
}

#[derive(Default)]
pub struct TreeStats {
    pub nodes: usize,
    pub total: usize,
    pub compiled: usize,
    pub depth: usize,
    pub shape: u64,
    pub uncompilable: u64,
    pub prefix_broken: u64,
}

pub fn stats_of(t: &VerifTree) -> TreeStats {
    let mut s = TreeStats::default();
    tree_stats(t, 0, &mut Vec::new(), &mut s);
    s
}

enum Tree {
    Multi(RegexTreeMap<u32>),
    Unique(UniqueRegexTreeMap<u32>),
}

impl Tree {
    fn find(&self, s: &str) -> Vec<u32> {
        match self {
            Tree::Multi(t) => t.find(s).into_iter().copied().collect(),
            Tree::Unique(t) => t.find(s).into_iter().copied().collect(),
        }
    }
    fn len(&self) -> usize {
        match self {
            Tree::Multi(t) => t.len(),
            Tree::Unique(t) => t.len(),
        }
    }
    fn is_empty(&self) -> bool {
        match self {
            Tree::Multi(t) => t.is_empty(),
            Tree::Unique(t) => t.is_empty(),
        }
    }
    fn iter_values(&self) -> Vec<u32> {
        match self {
            Tree::Multi(t) => t.iter().copied().collect(),
            Tree::Unique(t) => t.iter().copied().collect(),
        }
    }
    fn snapshot(&self) -> VerifTree {
        match self {
            Tree::Multi(t) => t.verif_snapshot(),
            Tree::Unique(t) => t.verif_snapshot(),
        }
    }
}

/// Applies the history to the real tree and the flat model, checking after every op.
pub fn check(case: &Case, obs: &mut Obs) -> Result<(), String> {
    let mut tree = if case.unique {
        Tree::Unique(UniqueRegexTreeMap::new(case.ignore_case))
    } else {
        Tree::Multi(RegexTreeMap::new(case.ignore_case))
    };
    // model: (pattern, id, value) in insertion order
    let mut live: Vec<(String, String, u32)> = Vec::new();

    for (step, op) in case.ops.iter().enumerate() {
        match op {
            Op::Insert { p, id, v } => {
                let id = if case.unique { p.clone() } else { id.clone() };
                if let Some(e) = live.iter_mut().find(|e| e.1 == id && e.0 == *p) {
                    e.2 = *v;
                } else {
                    live.push((p.clone(), id.clone(), *v));
                }
                match &mut tree {
                    Tree::Multi(t) => t.insert(p, &id, *v),
                    Tree::Unique(t) => t.insert(p, *v),
                }
            }
            Op::Remove { id } => {
                let expected = live.iter().position(|e| e.1 == *id).map(|i| live.remove(i).2);
                let got = match &mut tree {
                    Tree::Multi(t) => t.remove(id),
                    Tree::Unique(t) => t.remove(id),
                };
                if got != expected {
                    return Err(format!("step {step} {op:?}: remove returned {got:?}, model {expected:?}"));
                }
            }
            Op::Retain { drop } => {
                live.retain(|e| !drop.contains(&e.1));
                match &mut tree {
                    Tree::Multi(t) => t.retain(&|id: &str, _v: &mut u32| !drop.iter().any(|d| d == id)),
                    Tree::Unique(t) => t.retain(&|id: &str, _v: &mut u32| !drop.iter().any(|d| d == id)),
                }
            }
            Op::Cache { limit, level } => {
                let left = match &mut tree {
                    Tree::Multi(t) => t.cache(*limit, *level),
                    Tree::Unique(t) => t.cache(*limit, *level),
                };
                if left > *limit {
                    return Err(format!("step {step} {op:?}: cache returned {left} > limit"));
                }
            }
        }

        // --- observations through the hook (coverage + diagnostics)
        let snap = tree.snapshot();
        let st = stats_of(&snap);
        obs.max_depth = obs.max_depth.max(st.depth);
        obs.max_nodes = obs.max_nodes.max(st.nodes);
        obs.shapes.push(st.shape);
        obs.uncompilable_nodes += st.uncompilable;
        obs.prefix_invariant_broken += st.prefix_broken;
        obs.cache_states.push((st.compiled, st.total));

        // --- oracle
        if tree.len() != live.len() {
            return Err(format!("step {step} {op:?}: len() = {}, model {}", tree.len(), live.len()));
        }
        if tree.is_empty() != live.is_empty() {
            return Err(format!("step {step} {op:?}: is_empty() = {}, model {}", tree.is_empty(), live.is_empty()));
        }
        let mut iter_values = tree.iter_values();
        iter_values.sort();
        let mut model_values: Vec<u32> = live.iter().map(|e| e.2).collect();
        model_values.sort();
        if iter_values != model_values {
            return Err(format!("step {step} {op:?}: iter() = {iter_values:?}, model {model_values:?}"));
        }
        // get by pattern, for every pattern ever mentioned in the history
        for prior in case.ops.iter().take(step + 1) {
            if let Op::Insert { p, .. } = prior {
                let mut expected: Vec<u32> = live.iter().filter(|e| e.0 == *p).map(|e| e.2).collect();
                expected.sort();
                let mut got: Vec<u32> = match &tree {
                    Tree::Multi(t) => t.get(p).into_iter().copied().collect(),
                    Tree::Unique(t) => t.get(p).into_iter().copied().collect(),
                };
                got.sort();
                if got != expected {
                    return Err(format!("step {step} {op:?}: get({p:?}) = {got:?}, model {expected:?}"));
                }
            }
        }
        for s in &case.haystacks {
            let mut got = tree.find(s);
            got.sort();
            let mut expected: Vec<u32> = live
                .iter()
                .filter(|e| oracle_match(&e.0, case.ignore_case, s))
                .map(|e| e.2)
                .collect();
            expected.sort();
            obs.finds += 1;
            if st.depth >= 2 {
                obs.deep_finds += 1;
            }
            if got != expected {
                return Err(format!(
                    "step {step} {op:?}: find({s:?}) = {got:?}, linear scan {expected:?}; live = {:?}",
                    live
                ));
            }
        }
    }
    Ok(())
}

fn has_paren_in_class(p: &str) -> bool {
    // detects an unescaped '(' or ')' inside a [...] character class
    let mut in_class = false;
    let mut escaped = false;
    for c in p.chars() {
        if escaped {
            escaped = false;
            continue;
        }
        match c {
            '\\' => escaped = true,
            '[' if !in_class => in_class = true,
            ']' if in_class => in_class = false,
            '(' | ')' if in_class => return true,
            _ => {}
        }
    }
    false
}

fn record(ctx: &Ctx, case: &Case, enumerated: bool, report: &mut Report) {
    report.eval();
    let mut obs = Obs::default();
    let result = guarded(|| check(case, &mut obs));
    report.count_n("find_checks", obs.finds);
    report.count_n("find_checks_with_tree_depth_ge_2", obs.deep_finds);
    report.count_n("node_regexes_that_do_not_compile", obs.uncompilable_nodes);
    report.count_n("prefix_invariant_breaks_seen", obs.prefix_invariant_broken);
    // shape transitions: split / collapse / re-split show up as A -> B -> A sequences
    let mut back_and_forth = 0;
    for w in obs.shapes.windows(3) {
        if w[0] == w[2] && w[0] != w[1] {
            back_and_forth += 1;
        }
    }
    report.count_n("shape_transitions_there_and_back", back_and_forth);
    for s in &obs.shapes {
        report.distinct("tree_shapes", *s);
    }
    for (c, t) in &obs.cache_states {
        let label = if *t == 0 {
            "empty"
        } else if *c == 0 {
            "uncached"
        } else if c == t {
            "fully_cached"
        } else {
            "partially_cached"
        };
        report.count(&format!("cache_state_{label}"));
    }
    report.state("max_tree_depth", format!("{}", obs.max_depth));

    let case_json = || serde_json::to_value(case).unwrap();
    let extended = case.ops.iter().any(|op| matches!(op, Op::Insert { p, .. } if has_paren_in_class(p)));
    match result {
        Err(p) => report.violation("panic", format!("panic in the tree: {p}"), case_json()),
        Ok(Err(m)) => {
            if extended {
                report.finding(ctx, "C08-F12", m, case_json());
            } else {
                report.violation("mismatch", m, case_json());
            }
        }
        Ok(Ok(())) => {
            if obs.max_depth >= 2 {
                if enumerated {
                    report.nontrivial_enumerated();
                } else {
                    report.nontrivial(fnv_str(&serde_json::to_string(case).unwrap()));
                }
                if report.want_sample() && case.ops.len() >= 5 {
                    report.sample(json!({"case": case, "max_depth": obs.max_depth, "finds": obs.finds}));
                }
            }
        }
    }
}

/// all histories for one pattern set: every insertion order x every removal subset
/// (via remove / via retain), then re-insertion of the removed values, with cache calls interleaved.
/// `part` / `parts`: the insertion orders are dealt out to `parts` workers (1 = the caller does them all)
fn enumerate_set(ctx: &Ctx, patterns: &[String], haystacks: &[String], variant: u64, part: usize, parts: usize, report: &mut Report) {
    let k = patterns.len();
    let perms = permutations(k);
    let mut counter = variant;
    for (perm_index, perm) in perms.iter().enumerate() {
        for subset in 0..(1u32 << k) {
            for via_retain in [false, true] {
                counter += 1;
                if perm_index % parts != part {
                    continue;
                }
                let ignore_case = counter % 2 == 0;
                let cache_mode = (counter / 2) % 4;
                let mut ops = Vec::new();
                let mut v = 1u32;
                for &i in perm {
                    ops.push(Op::Insert {
                        p: patterns[i].clone(),
                        id: format!("id{i}"),
                        v,
                    });
                    v += 1;
                }
                match cache_mode {
                    1 => ops.push(Op::Cache { limit: 1000, level: None }),
                    2 => ops.push(Op::Cache {
                        limit: 1 + (counter % 3),
                        level: Some(counter % 3),
                    }),
                    _ => {}
                }
                let removed: Vec<usize> = (0..k).filter(|i| subset & (1 << i) != 0).collect();
                if via_retain {
                    if !removed.is_empty() {
                        ops.push(Op::Retain {
                            drop: removed.iter().map(|i| format!("id{i}")).collect(),
                        });
                    }
                } else {
                    for i in &removed {
                        ops.push(Op::Remove { id: format!("id{i}") });
                    }
                }
                if cache_mode == 3 {
                    ops.push(Op::Cache { limit: 2, level: Some(1) });
                }
                for i in removed.iter().rev() {
                    ops.push(Op::Insert {
                        p: patterns[*i].clone(),
                        id: format!("id{i}"),
                        v,
                    });
                    v += 1;
                }
                let case = Case {
                    ignore_case,
                    unique: false,
                    ops,
                    haystacks: haystacks.to_vec(),
                };
                record(ctx, &case, true, report);
            }
        }
    }
}

fn random_pattern(rng: &mut Rng) -> Vec<Part> {
    const LITS: &[&str] = &["/", "/a", "/a/", "/a/b", "/a-b", "/a.b", "/b/", "/\u{e9}", "-", ".html", "/(x)", "?q=", "/A/", ""];
    const EXS: &[&str] = &[E_INT, E_LOW, E_ANY, E_ALL, E_ENUM, E_RANGE, E_EMOJI, E_EMPTY, E_SPECIAL, E_UP, E_NESTED, E_ANCH];
    let n = rng.range(1, 3);
    let mut parts = Vec::new();
    for _ in 0..n {
        parts.push(Lit(*rng.pick(LITS)));
        parts.push(Ex(*rng.pick(EXS)));
    }
    if rng.coin() {
        parts.push(Lit(*rng.pick(LITS)));
    }
    parts
}

fn random_history(rng: &mut Rng, cat: &[Vec<Part>], max_ops: usize) -> Case {
    let npat = rng.range(2, 15);
    let mut pats: Vec<Vec<Part>> = Vec::new();
    for _ in 0..npat {
        if rng.chance(3, 4) {
            pats.push(rng.pick(cat).clone());
        } else {
            pats.push(random_pattern(rng));
        }
    }
    let unique = rng.chance(1, 4);
    let refs: Vec<&Vec<Part>> = pats.iter().collect();
    let haystacks = haystacks_for(&refs, rng, 24);
    let strs: Vec<String> = pats.iter().map(|p| build(p)).collect();
    let nops = rng.range(4, max_ops);
    let mut ops = Vec::new();
    // ids: "rN" bound to one pattern for its whole life (ids unique among live entries)
    let mut live_ids: Vec<(String, usize)> = Vec::new();
    let mut next_id = 0;
    let mut v = 1u32;
    for _ in 0..nops {
        match rng.below(10) {
            0..=4 => {
                // insert a new id, or re-insert an existing (pattern, id)
                if !live_ids.is_empty() && rng.chance(1, 5) {
                    let (id, pi) = rng.pick(&live_ids).clone();
                    ops.push(Op::Insert { p: strs[pi].clone(), id, v });
                } else {
                    let pi = rng.below(strs.len());
                    let id = if unique { strs[pi].clone() } else { format!("r{next_id}") };
                    next_id += 1;
                    if !live_ids.iter().any(|(i, _)| *i == id) {
                        live_ids.push((id.clone(), pi));
                    }
                    ops.push(Op::Insert { p: strs[pi].clone(), id, v });
                }
                v += 1;
            }
            5 | 6 => {
                if live_ids.is_empty() || rng.chance(1, 8) {
                    ops.push(Op::Remove { id: "absent".to_string() });
                } else {
                    let at = rng.below(live_ids.len());
                    let (id, _) = live_ids.remove(at);
                    ops.push(Op::Remove { id });
                }
            }
            7 => {
                let mut drop = Vec::new();
                live_ids.retain(|(id, _)| {
                    if rng.chance(1, 3) {
                        drop.push(id.clone());
                        false
                    } else {
                        true
                    }
                });
                ops.push(Op::Retain { drop });
            }
            _ => {
                let level = if rng.coin() { None } else { Some(rng.below(4) as u64) };
                let limit = *rng.pick(&[0u64, 1, 2, 3, 5, 1000]);
                ops.push(Op::Cache { limit, level });
            }
        }
    }
    Case {
        ignore_case: rng.coin(),
        unique,
        ops,
        haystacks,
    }
}

pub fn run(ctx: &Ctx, _args: &Args) -> i32 {
    let started = Instant::now();
    let jobs = ctx.jobs;
    let cat = catalogue();
    let n_sets: usize = ctx.tier.pick(32, 48);
    let set_size_max: usize = ctx.tier.pick(4, 5);
    let n_histories: u64 = ctx.tier.pick(2_400, 30_000);
    let n_big_sets: usize = ctx.tier.pick(0, 3); // k = 6 (720 orders x 64 subsets), thorough only

    let mut report = run_sharded(jobs, |shard, report| {
        let mut rng = Rng::stream(ctx.seed, 1000 + shard as u64);
        // exhaustive: orders x subsets for small sets
        for set_index in 0..n_sets {
            if set_index % jobs != shard {
                continue;
            }
            let mut set_rng = Rng::stream(ctx.seed, 5000 + set_index as u64);
            let k = if set_index % 4 == 0 { 3 } else { set_size_max };
            let mut idx: Vec<usize> = (0..cat.len()).collect();
            set_rng.shuffle(&mut idx);
            // bias: half of the sets are drawn from a window of neighbouring catalogue entries (shared prefixes)
            let chosen: Vec<usize> = if set_index % 2 == 0 {
                let start = set_rng.below(cat.len());
                (0..k).map(|i| (start + i) % cat.len()).collect()
            } else {
                idx.into_iter().take(k).collect()
            };
            let parts: Vec<&Vec<Part>> = chosen.iter().map(|i| &cat[*i]).collect();
            let patterns: Vec<String> = parts.iter().map(|p| build(p)).collect();
            let haystacks = haystacks_for(&parts, &mut set_rng, 14);
            enumerate_set(ctx, &patterns, &haystacks, set_index as u64, 0, 1, report);
            report.count("pattern_sets_enumerated");
        }
        for set_index in 0..n_big_sets {
            // every worker takes its share of the 720 insertion orders of every big set
            let mut set_rng = Rng::stream(ctx.seed, 9000 + set_index as u64);
            let start = set_rng.below(cat.len());
            let chosen: Vec<usize> = (0..6).map(|i| (start + i * (1 + set_index % 3)) % cat.len()).collect();
            let mut chosen_dedup = chosen.clone();
            chosen_dedup.sort();
            chosen_dedup.dedup();
            if chosen_dedup.len() < 6 {
                continue;
            }
            let parts: Vec<&Vec<Part>> = chosen.iter().map(|i| &cat[*i]).collect();
            let patterns: Vec<String> = parts.iter().map(|p| build(p)).collect();
            let haystacks = haystacks_for(&parts, &mut set_rng, 6);
            enumerate_set(ctx, &patterns, &haystacks, set_index as u64, shard, jobs, report);
            if shard == 0 {
                report.count("pattern_sets_enumerated_k6");
            }
        }
        // random histories
        for _ in 0..(n_histories / jobs as u64) {
            let case = random_history(&mut rng, &cat, 60);
            record(ctx, &case, false, report);
        }
        // extended-shape class (classified separately: F12)
        let ext = extended_catalogue();
        if shard == 0 {
            for (i, e) in ext.iter().enumerate() {
                for (j, base) in cat.iter().take(12).enumerate() {
                    let p2 = build(base);
                    let other = ext[(i + 1) % ext.len()].clone();
                    let ops = vec![
                        Op::Insert { p: e.clone(), id: "x1".into(), v: 1 },
                        Op::Insert { p: p2.clone(), id: "x2".into(), v: 2 },
                        Op::Insert { p: other.clone(), id: "x3".into(), v: 3 },
                        Op::Remove { id: "x2".into() },
                        Op::Cache { limit: 10, level: None },
                    ];
                    let haystacks = vec![
                        "/x/)x".to_string(),
                        "/x/)y".to_string(),
                        "/x/abc/w".to_string(),
                        "/x/(y".to_string(),
                        "/x/abc/z".to_string(),
                        "/x/(12)".to_string(),
                        "/x/".to_string(),
                        "/a/1".to_string(),
                        "/y/()a".to_string(),
                        "/y/]b".to_string(),
                        "/y/xc".to_string(),
                        "/y/xyd".to_string(),
                        "/z/ab(a".to_string(),
                        "/z/)b".to_string(),
                        "/z/abc1".to_string(),
                        "/z/x2".to_string(),
                        "/q/](a".to_string(),
                        "/q/)b".to_string(),
                        "/q/[(c".to_string(),
                        "/q/[d".to_string(),
                    ];
                    let case = Case {
                        ignore_case: j % 2 == 0,
                        unique: false,
                        ops,
                        haystacks,
                    };
                    record(ctx, &case, false, report);
                    report.count("extended_shape_cases");
                }
            }
        }
    });

    report.exhaustive.insert(
        format!("per pattern set (k<={set_size_max}): all k! insertion orders x all 2^k removal subsets x {{remove, retain}} + re-insertion, cache calls interleaved"),
        json!({"complete": true, "sets": report.counters.get("pattern_sets_enumerated").copied().unwrap_or(0), "note": "complete per enumerated set; the sets themselves are sampled from the 40-pattern catalogue"}),
    );
    report.notes.insert("exhaustive".into(), json!(false));

    finish(
        ctx,
        report,
        "histories over {insert, remove, retain, cache} on RegexTreeMap/UniqueRegexTreeMap with rule-shaped patterns (escaped literals + (?:marker expr) from the fixture families); after every op find/len/is_empty/iter/get are compared with a flat list scanned with the regex crate. Enumerated: per small pattern set all insertion orders x removal subsets; random: histories of <= 60 ops. non-trivial = history during which the tree reached depth >= 2",
        &["regex crate as the matching engine of the oracle (no tree, no prefixing)", "patterns restricted to the rule shape; empty pattern excluded (see DESIGN C08)"],
        started,
        100,
    )
    .exit_code
}

pub fn replay(_ctx: &Ctx, case: &Value) -> i32 {
    let case: Case = match serde_json::from_value(case.clone()) {
        Ok(c) => c,
        Err(e) => {
            eprintln!("bad case: {e}");
            return 2;
        }
    };
    let mut obs = Obs::default();
    let failures = match guarded(|| check(&case, &mut obs)) {
        Err(p) => vec![format!("panic: {p}")],
        Ok(Err(m)) => vec![m],
        Ok(Ok(())) => vec![],
    };
    super::replay_verdict("C08", failures)
}

#[allow(dead_code)]
pub fn unused(_: BTreeMap<u8, u8>) {}
