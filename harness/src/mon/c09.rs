//! C09 — URL normalisation is canonical: rules and requests agree on equivalent URLs.
//!
//! Metamorphic monitor (no reference normaliser: the rule side and the request side must agree with
//! each other): M1 self-match, M2 separation, M3 query permutation, M4 marketing parameters (ignored
//! for matching, forwarded to the target iff configured), M5 ASCII case swap under the case flag,
//! M6 idempotence of re-normalisation — over the full 2^6 flag cube x 3 marketing sets.

use super::Args;
use crate::prng::{fnv_str, mix, Rng};
use crate::report::{finish, Ctx, Report};
use crate::util::{guarded, run_sharded};
use crate::world::*;
use redirectionio::action::Action;
use redirectionio::api::Rule;
use redirectionio::http::Request;
use redirectionio::router::Router;
use serde::{Deserialize, Serialize};
use serde_json::{json, Value};
use std::collections::BTreeMap;
use std::time::Instant;

#[derive(Clone, Debug, Serialize, Deserialize, PartialEq, Eq)]
pub struct Url {
    pub path: String,
    /// raw query text after '?', None = no '?' at all
    pub query: Option<String>,
}

impl Url {
    pub fn text(&self) -> String {
        match &self.query {
            None => self.path.clone(),
            Some(q) => format!("{}?{}", self.path, q),
        }
    }
}

#[derive(Clone, Debug, Serialize, Deserialize)]
pub struct Case {
    pub cfg: Cfg,
    pub url: Url,
    /// variant URLs: (relation, url)
    pub variants: Vec<(String, Url)>,
}

// ---------------------------------------------------------------------------------------------
// harness-side URL primitives (independent of the library)

fn pct_decode_form(s: &str) -> String {
    // application/x-www-form-urlencoded decoding: '+' -> space, %XX -> byte, lossy UTF-8
    let b = s.as_bytes();
    let mut out = Vec::new();
    let mut i = 0;
    while i < b.len() {
        match b[i] {
            b'+' => {
                out.push(b' ');
                i += 1;
            }
            b'%' if i + 2 < b.len() && (b[i + 1] as char).is_ascii_hexdigit() && (b[i + 2] as char).is_ascii_hexdigit() => {
                let h = (b[i + 1] as char).to_digit(16).unwrap() as u8;
                let l = (b[i + 2] as char).to_digit(16).unwrap() as u8;
                out.push(h << 4 | l);
                i += 3;
            }
            c => {
                out.push(c);
                i += 1;
            }
        }
    }
    String::from_utf8_lossy(&out).to_string()
}

fn enc_query_component(s: &str) -> String {
    // controls, space, '"', '#', '<', '>', '+' and non-ASCII are percent-encoded (upper-case hex)
    let mut out = String::new();
    for b in s.bytes() {
        let enc = b < 0x20 || b == 0x7f || b >= 0x80 || matches!(b, b' ' | b'"' | b'#' | b'<' | b'>' | b'+');
        if enc {
            out.push_str(&format!("%{b:02X}"));
        } else {
            out.push(b as char);
        }
    }
    out
}

/// decoded parameter map (last duplicate wins), as a form decoder sees the raw query
pub fn decoded_params(query: &str) -> BTreeMap<String, String> {
    let mut m = BTreeMap::new();
    for part in query.split('&') {
        if part.is_empty() {
            continue;
        }
        let (k, v) = match part.find('=') {
            Some(i) => (&part[..i], &part[i + 1..]),
            None => (part, ""),
        };
        m.insert(pct_decode_form(k), pct_decode_form(v));
    }
    m
}

/// canonical query: sorted by decoded key, last duplicate wins, re-encoded, empty values without '='
pub fn canonical_query(query: &str) -> String {
    decoded_params(query)
        .iter()
        .map(|(k, v)| if v.is_empty() { enc_query_component(k) } else { format!("{}={}", enc_query_component(k), enc_query_component(v)) })
        .collect::<Vec<_>>()
        .join("&")
}

pub fn canonical_url(u: &Url) -> String {
    let path = sanitize_path_literal(&u.path);
    match &u.query {
        None => path,
        Some(q) => {
            let c = canonical_query(q);
            if c.is_empty() {
                path
            } else {
                format!("{path}?{c}")
            }
        }
    }
}

/// is the request-side query normalisation skipped for this URL under this configuration
pub fn normalisation_skipped(cfg: &Cfg, u: &Url) -> bool {
    if !cfg.ignore_marketing_query_params {
        return true;
    }
    let sanitized = sanitize_path_literal(&u.text());
    sanitized.parse::<http::uri::PathAndQuery>().is_err()
}

/// canonical *matching* form: marketing keys are dropped when ignoring is configured
pub fn is_canonical(cfg: &Cfg, u: &Url) -> bool {
    let path = sanitize_path_literal(&u.path);
    let canonical = match &u.query {
        None => path,
        Some(q) => {
            let c = decoded_params(q)
                .iter()
                .filter(|(k, _)| !(cfg.ignore_marketing_query_params && cfg.marketing_query_params.contains(k)))
                .map(|(k, v)| if v.is_empty() { enc_query_component(k) } else { format!("{}={}", enc_query_component(k), enc_query_component(v)) })
                .collect::<Vec<_>>()
                .join("&");
            if c.is_empty() {
                path
            } else {
                format!("{path}?{c}")
            }
        }
    };
    sanitize_path_literal(&u.text()) == canonical
}

fn rule_from(id: &str, u: &Url, target: &str) -> RuleSpec {
    let mut r = RuleSpec::simple(id, "/");
    // path template without marker syntax: a literal piece (may contain '@', which no marker claims)
    let full = u.text();
    r.path = Template {
        pieces: vec![Piece::Lit(full)],
    };
    r.effects.target = Some(target.to_string());
    r.effects.status_code = Some(301);
    r
}

fn request_for(cfg_built: &redirectionio::RouterConfig, u: &Url) -> Request {
    ReqSpec::get(&u.text()).build(cfg_built)
}

fn location_of(router: &Router<Rule>, request: &Request, rule_id: &str) -> Option<String> {
    let routes: Vec<_> = router.match_request(request).into_iter().filter(|r| r.id() == rule_id).collect();
    if routes.is_empty() {
        return None;
    }
    let mut action = Action::from_routes_rule(routes, request, None);
    action
        .filter_headers(Vec::new(), 0, false, None)
        .into_iter()
        .find(|h| h.name.to_lowercase() == "location")
        .map(|h| h.value)
}

#[derive(Debug)]
pub struct Failure {
    pub class: &'static str,
    pub message: String,
}

pub struct Stats {
    pub relations: u32,
    pub m2_checked: u32,
    pub location_checked: u32,
}

fn classify(cfg: &Cfg, rule_urls: &[&Url], request_urls: &[&Url], message: String) -> Failure {
    // F11: request-side query normalisation skipped and the request is not in canonical form
    if request_urls.iter().any(|u| normalisation_skipped(cfg, u) && !is_canonical(cfg, u)) {
        return Failure { class: "C09-F11", message };
    }
    // F17: ignoring is on and a rule's own query contains a configured marketing key
    if cfg.ignore_marketing_query_params
        && rule_urls.iter().any(|u| {
            u.query
                .as_ref()
                .map(|q| decoded_params(q).keys().any(|k| cfg.marketing_query_params.contains(k)))
                .unwrap_or(false)
        })
    {
        return Failure { class: "C09-F17", message };
    }
    // F18: under the case flag the query is sorted before it is lower-cased, so two URLs that are equal
    // modulo ASCII case can normalise to differently ordered queries
    if cfg.ignore_path_and_query_case && request_urls.len() == 2 {
        let lower_url = |u: &Url| Url {
            path: u.path.to_lowercase(),
            query: u.query.as_ref().map(|q| q.to_lowercase()),
        };
        let (a, b) = (request_urls[0], request_urls[1]);
        if canonical_url(&lower_url(a)) == canonical_url(&lower_url(b)) && canonical_url(a).to_lowercase() != canonical_url(b).to_lowercase() {
            return Failure { class: "C09-F18", message };
        }
    }
    Failure { class: "normalisation", message }
}

/// every relation is evaluated even after one failed: a known finding on one relation must not hide the others
pub fn check(case: &Case) -> (Stats, Vec<Failure>) {
    let mut fails: Vec<Failure> = Vec::new();
    let cfg = &case.cfg;
    let built = cfg.build();
    let u = &case.url;
    let mut stats = Stats {
        relations: 0,
        m2_checked: 0,
        location_checked: 0,
    };

    // routers: single rule (M1/M2), several rules (M3..M5)
    let target = "/t?keep=1";
    let mut single = Router::<Rule>::from_config(cfg.build());
    single.insert(rule_from("r1", u, target).to_rule());
    let mut multi = Router::<Rule>::from_config(cfg.build());
    multi.insert(rule_from("r1", u, target).to_rule());
    multi.insert(rule_from("r2", &Url { path: u.path.clone(), query: None }, "/t2").to_rule());
    let mut other_rule_urls: Vec<Url> = Vec::new();
    for (i, (rel, v)) in case.variants.iter().enumerate() {
        if rel == "M2" {
            multi.insert(rule_from(&format!("v{i}"), v, "/tv").to_rule());
            other_rule_urls.push(v.clone());
        }
    }

    // M1
    let base_request = request_for(&built, u);
    let base_single = ids_of(&single.match_request(&base_request));
    stats.relations += 1;
    if !base_single.contains(&"r1".to_string()) {
        fails.push(classify(
            cfg,
            &[u],
            &[u],
            format!("M1: the rule built from URL {:?} does not match a request for that URL (matching form {:?})", u.text(), base_request.path_and_query()),
        ));
    }
    let base_multi = ids_of(&multi.match_request(&base_request));

    // M1': the same literal rule, but declaring a marker that its source never uses (a marker used only by
    // the target, or left over after an edit): the source is still a literal URL, so every request below must
    // be answered exactly as by `single`
    let mut single_unused = Router::<Rule>::from_config(cfg.build());
    {
        let mut r = rule_from("r1", u, target);
        r.markers = vec![MarkerSpec {
            name: "zzunused".to_string(),
            regex: "[0-9]+".to_string(),
            transformers: vec![],
        }];
        single_unused.insert(r.to_rule());
    }
    let same_with_unused_marker = |q: &Request, what: &str| -> Result<(), Failure> {
        let a = ids_of(&single.match_request(q));
        let b = ids_of(&single_unused.match_request(q));
        if a != b {
            return Err(Failure {
                class: "unused-marker",
                message: format!(
                    "{what}: the literal rule for {:?} answers {a:?}, the same rule declaring an unused marker answers {b:?} (request matching form {:?})",
                    u.text(),
                    q.path_and_query()
                ),
            });
        }
        Ok(())
    };
    stats.relations += 1;
    if let Err(f) = same_with_unused_marker(&base_request, "M1'") {
        fails.push(f);
    }

    // M6 on the base request
    let once = Request::rebuild_with_config(&built, &base_request);
    let twice = Request::rebuild_with_config(&built, &once);
    let (j0, j1, j2) = (
        serde_json::to_string(&base_request).unwrap_or_default(),
        serde_json::to_string(&once).unwrap_or_default(),
        serde_json::to_string(&twice).unwrap_or_default(),
    );
    stats.relations += 1;
    if j1 != j2 || j0 != j1 {
        fails.push(Failure {
            class: "not-idempotent",
            message: format!("M6: re-normalising changes the request: {j0} -> {j1} -> {j2}"),
        });
    }

    // location for the base request
    if cfg.ignore_marketing_query_params && !normalisation_skipped(cfg, u) {
        let u_keys = u.query.as_ref().map(|q| decoded_params(q)).unwrap_or_default();
        if !u_keys.keys().any(|k| cfg.marketing_query_params.contains(k)) {
            stats.location_checked += 1;
            let loc = location_of(&single, &base_request, "r1");
            if loc.as_deref() != Some(target) {
                fails.push(Failure {
                    class: "location",
                    message: format!("Location for a request without marketing parameters is {loc:?}, expected {target:?}"),
                });
            }
        }
    }

    for (rel, v) in &case.variants {
        let vr = request_for(&built, v);
        stats.relations += 1;
        if let Err(f) = same_with_unused_marker(&vr, rel) {
            fails.push(f);
        }
        // M6 on every variant (marketing parameters, permuted and case-swapped forms included)
        let vr1 = Request::rebuild_with_config(&built, &vr);
        let vr2 = Request::rebuild_with_config(&built, &vr1);
        let (k0, k1, k2) = (
            serde_json::to_string(&vr).unwrap_or_default(),
            serde_json::to_string(&vr1).unwrap_or_default(),
            serde_json::to_string(&vr2).unwrap_or_default(),
        );
        if k0 != k1 || k1 != k2 {
            fails.push(Failure {
                class: "not-idempotent",
                message: format!("M6 ({rel} variant): re-normalising changes the request: {k0} -> {k1} -> {k2}"),
            });
        }
        // M6'': a request in the legacy wire format (no `path_and_query_v2`: the raw URL travels only as
        // `original` inside the normalised part) re-normalises to the same request
        {
            let mut legacy = vr.clone();
            legacy.path_and_query = None;
            let back = Request::rebuild_with_config(&built, &legacy);
            let a = serde_json::to_string(&back.path_and_query_skipped).unwrap_or_default();
            let b = serde_json::to_string(&vr.path_and_query_skipped).unwrap_or_default();
            if a != b {
                fails.push(Failure {
                    class: "not-idempotent",
                    message: format!("M6'' ({rel} variant): a legacy-format request (path_and_query_v2 absent) re-normalises to {a}, the current-format one to {b}"),
                });
            }
        }
        match rel.as_str() {
            "M2" => {
                // different path or different decoded parameters => the rule for u must not match v
                stats.m2_checked += 1;
                let got = ids_of(&single.match_request(&vr));
                if got.contains(&"r1".to_string()) {
                    fails.push(classify(
                        cfg,
                        &[u],
                        &[v],
                        format!("M2: the rule built from {:?} matches the different URL {:?}", u.text(), v.text()),
                    ));
                }
            }
            "M3" | "M5" => {
                if rel == "M5" && !cfg.ignore_path_and_query_case {
                    continue;
                }
                let got = ids_of(&multi.match_request(&vr));
                if got != base_multi {
                    let mut rule_urls: Vec<&Url> = vec![u];
                    rule_urls.extend(other_rule_urls.iter());
                    fails.push(classify(
                        cfg,
                        &rule_urls,
                        &[u, v],
                        format!(
                            "{rel}: requests {:?} and {:?} must match the same rules but match {base_multi:?} and {got:?} (matching forms {:?} / {:?})",
                            u.text(),
                            v.text(),
                            base_request.path_and_query(),
                            vr.path_and_query()
                        ),
                    ));
                }
            }
            "M4" => {
                if !cfg.ignore_marketing_query_params {
                    continue;
                }
                let got = ids_of(&multi.match_request(&vr));
                if got != base_multi {
                    let mut rule_urls: Vec<&Url> = vec![u];
                    rule_urls.extend(other_rule_urls.iter());
                    fails.push(classify(
                        cfg,
                        &rule_urls,
                        &[u, v],
                        format!("M4: adding configured marketing parameters changes the match: {:?} -> {base_multi:?}, {:?} -> {got:?}", u.text(), v.text()),
                    ));
                }
                // forwarding to the target
                if !normalisation_skipped(cfg, v) && got.contains(&"r1".to_string()) {
                    let added: BTreeMap<String, String> = decoded_params(v.query.as_deref().unwrap_or(""))
                        .into_iter()
                        .filter(|(k, _)| cfg.marketing_query_params.contains(k))
                        .collect();
                    let forwarded = added
                        .iter()
                        .map(|(k, val)| if val.is_empty() { enc_query_component(k) } else { format!("{}={}", enc_query_component(k), enc_query_component(val)) })
                        .collect::<Vec<_>>()
                        .join("&");
                    let want = if cfg.pass_marketing_query_params_to_target && !forwarded.is_empty() {
                        format!("{target}&{forwarded}")
                    } else {
                        target.to_string()
                    };
                    stats.location_checked += 1;
                    // agent -> JSON -> proxy: the request is re-normalised more than once before the action is built
                    let loc_again = location_of(&multi, &vr2, "r1");
                    if loc_again.as_deref() != Some(want.as_str()) {
                        fails.push(Failure {
                            class: "location",
                            message: format!(
                                "M4+M6: Location for {:?} after re-normalising the request twice is {loc_again:?}, expected {want:?}",
                                v.text()
                            ),
                        });
                    }
                    let loc = location_of(&multi, &vr, "r1");
                    if loc.as_deref() != Some(want.as_str()) {
                        fails.push(Failure {
                            class: "location",
                            message: format!(
                                "M4: Location for {:?} is {loc:?}, expected {want:?} (pass_marketing_query_params_to_target = {})",
                                v.text(),
                                cfg.pass_marketing_query_params_to_target
                            ),
                        });
                    }
                }
            }
            _ => {}
        }
    }
    // M7: forwarding to a target that receives its '?' from the captured text (a catch-all rule): the skipped
    // marketing parameters are appended to the *substituted* target, with '&' when it already has a query
    if cfg.ignore_marketing_query_params {
        let mk = if cfg.marketing_query_params.iter().any(|k| k == "utm_source") {
            Some("utm_source")
        } else if cfg.marketing_query_params.iter().any(|k| k == "mk") {
            Some("mk")
        } else {
            None
        };
        if let Some(mk) = mk {
            let mut dynamic = Router::<Rule>::from_config(cfg.build());
            let mut r = RuleSpec::simple("d1", "/dyn/@rest");
            r.markers = vec![MarkerSpec {
                name: "rest".to_string(),
                regex: ".*".to_string(),
                transformers: vec![],
            }];
            r.effects.target = Some("/t/@rest".to_string());
            r.effects.status_code = Some(301);
            dynamic.insert(r.to_rule());
            for (query, captured, skipped) in [
                (format!("page=2&{mk}=x"), "list?page=2", format!("{mk}=x")),
                (format!("{mk}=x"), "list", format!("{mk}=x")),
                ("page=2".to_string(), "list?page=2", String::new()),
            ] {
                let q = request_for(
                    &built,
                    &Url {
                        path: "/dyn/list".to_string(),
                        query: Some(query.clone()),
                    },
                );
                let base = format!("/t/{captured}");
                let want = if cfg.pass_marketing_query_params_to_target && !skipped.is_empty() {
                    format!("{base}{}{skipped}", if base.contains('?') { "&" } else { "?" })
                } else {
                    base
                };
                stats.relations += 1;
                stats.location_checked += 1;
                let loc = location_of(&dynamic, &q, "d1");
                if loc.as_deref() != Some(want.as_str()) {
                    fails.push(Failure {
                        class: "location",
                        message: format!("M7: catch-all rule /dyn/@rest -> /t/@rest, request /dyn/list?{query}: Location {loc:?}, expected {want:?} (pass flag {})", cfg.pass_marketing_query_params_to_target),
                    });
                }
            }
        }
    }
    (stats, fails)
}

// ---------------------------------------------------------------------------------------------
// generation

const SEGMENTS: &[&str] = &[
    "p", "P", "a-b", "a.b", "a_b", "a~b", "x y", "q\"r", "it's", "a+b", "a|b", "[1]", "<t>", "%20", "%2B", "%2F", "%C3%A9", "%FF", "\u{e9}", "\u{65e5}\u{672c}", "\u{1f355}", "A", "index.html",
    "a`b", "{x}", "a^b", "a@b", "a,b;c", "a=b", "a&b", "a:b", "(x)", "!*", "$1",
];
const KEYS: &[&str] = &["a", "b", "c", "A", "B", "x y", "k+", "k%20", "\u{e9}", "utm_source", "utm_medium", "mk", "a[]", "a%5B%5D", "q.r", "z"];
const VALUES: &[&str] = &["1", "2", "", "a b", "a+b", "%2B", "\u{e9}", "%C3%A9", "X", "x", "<v>", "\"q\"", "a/b", "a?b", "%FF", "1,2", "a:b", "'"];

fn random_path(rng: &mut Rng) -> String {
    let n = rng.range(1, 3);
    let mut s = String::new();
    for _ in 0..n {
        s.push('/');
        s.push_str(*rng.pick(SEGMENTS));
    }
    if rng.chance(1, 8) {
        s.push('/');
    }
    s
}

fn render_params(params: &[(String, Option<String>)], rng: &mut Rng, messy: bool) -> String {
    let mut s = String::new();
    for (i, (k, v)) in params.iter().enumerate() {
        if i > 0 {
            s.push('&');
            if messy && rng.chance(1, 6) {
                s.push('&');
            }
        }
        s.push_str(k);
        if let Some(v) = v {
            s.push('=');
            s.push_str(v);
        }
    }
    if messy && rng.chance(1, 8) {
        s.push('&');
    }
    s
}

fn random_params(rng: &mut Rng, allow_dup: bool, allow_marketing: bool) -> Vec<(String, Option<String>)> {
    let n = rng.range(0, 4);
    let mut out: Vec<(String, Option<String>)> = Vec::new();
    for _ in 0..n {
        let k = *rng.pick(KEYS);
        if !allow_marketing && (k.starts_with("utm_") || k == "mk") {
            continue;
        }
        if !allow_dup && out.iter().any(|(x, _)| pct_decode_form(x) == pct_decode_form(k)) {
            continue;
        }
        let v = if rng.chance(1, 8) { None } else { Some(rng.pick(VALUES).to_string()) };
        out.push((k.to_string(), v));
    }
    out
}

pub fn random_case(rng: &mut Rng, cfg: Cfg) -> Case {
    let path = random_path(rng);
    let allow_marketing_in_rule = rng.chance(1, 10);
    let allow_dup = rng.chance(1, 5);
    let params = random_params(rng, allow_dup, allow_marketing_in_rule);
    let query = if params.is_empty() {
        if rng.chance(1, 10) {
            Some(String::new())
        } else {
            None
        }
    } else {
        Some(render_params(&params, rng, true))
    };
    let url = Url { path: path.clone(), query };
    let mut variants: Vec<(String, Url)> = Vec::new();

    // M2: different path, and different decoded parameters
    variants.push(("M2".into(), Url { path: format!("{path}x9"), query: url.query.clone() }));
    {
        let mut p2 = params.clone();
        match rng.below(3) {
            0 => p2.push(("zz9".to_string(), Some("1".to_string()))),
            1 if !p2.is_empty() => {
                let at = rng.below(p2.len());
                p2[at].1 = Some(format!("{}9", p2[at].1.clone().unwrap_or_default()));
            }
            _ => p2.push(("zz8".to_string(), None)),
        }
        let q2 = render_params(&p2, rng, false);
        // only claim separation when the decoded maps really differ (also modulo ASCII case)
        let a = decoded_params(url.query.as_deref().unwrap_or(""));
        let b = decoded_params(&q2);
        let lower = |m: &BTreeMap<String, String>| m.iter().map(|(k, v)| (k.to_lowercase(), v.to_lowercase())).collect::<BTreeMap<_, _>>();
        if lower(&a) != lower(&b) {
            variants.push(("M2".into(), Url { path: path.clone(), query: Some(q2) }));
        }
    }
    // M3: permutation of the parameters (same multiset of raw parameters, distinct decoded keys only)
    let distinct_keys = {
        let mut seen = std::collections::BTreeSet::new();
        params.iter().all(|(k, _)| seen.insert(pct_decode_form(k)))
    };
    if params.len() >= 2 && distinct_keys {
        let mut p3 = params.clone();
        rng.shuffle(&mut p3);
        variants.push(("M3".into(), Url { path: path.clone(), query: Some(render_params(&p3, rng, true)) }));
        let mut p3b = params.clone();
        p3b.reverse();
        variants.push(("M3".into(), Url { path: path.clone(), query: Some(render_params(&p3b, rng, false)) }));
    }
    // M4: add configured marketing parameters at random positions
    if !cfg.marketing_query_params.is_empty() {
        let mut p4 = params.clone();
        let n = rng.range(1, 2);
        for _ in 0..n {
            let k = rng.pick(&cfg.marketing_query_params).clone();
            if p4.iter().any(|(x, _)| pct_decode_form(x) == k) {
                continue;
            }
            let at = rng.below(p4.len() + 1);
            let v = *rng.pick(&["news", "a b", "x+y", "", "\u{e9}"]);
            p4.insert(at, (k, Some(v.to_string())));
        }
        if p4.len() > params.len() {
            variants.push(("M4".into(), Url { path: path.clone(), query: Some(render_params(&p4, rng, false)) }));
        }
    }
    // M5: ASCII case swap of the whole URL
    {
        let swap = |s: &str| s.chars().map(|c| if c.is_ascii_lowercase() { c.to_ascii_uppercase() } else if c.is_ascii_uppercase() { c.to_ascii_lowercase() } else { c }).collect::<String>();
        variants.push(("M5".into(), Url { path: swap(&path), query: url.query.as_ref().map(|q| swap(q)) }));
    }
    Case { cfg, url, variants }
}

pub fn configs() -> Vec<Cfg> {
    let sets: Vec<Vec<String>> = vec![
        vec!["utm_source".into(), "utm_medium".into(), "utm_campaign".into(), "utm_term".into(), "utm_content".into()],
        vec!["mk".into()],
        vec![],
        // a configured name that is not all lower case (e.g. HubSpot's): it is spelled in the request as configured
        vec!["hsCtaTracking".into(), "mk".into()],
    ];
    let mut v = Vec::new();
    for bits in 0..64u32 {
        for s in &sets {
            let mut c = Cfg::from_bits(bits);
            c.marketing_query_params = s.clone();
            v.push(c);
        }
    }
    v
}

fn record(ctx: &Ctx, case: &Case, report: &mut Report) {
    report.eval();
    match guarded(|| check(case)) {
        Err(panic) => report.library_panic(&panic),
        Ok((stats, fails)) => {
            report.count_n("relations_checked", stats.relations as u64);
            report.count_n("separation_checks", stats.m2_checked as u64);
            report.count_n("location_checks", stats.location_checked as u64);
            let clean = fails.is_empty();
            for f in fails {
                let case_json = serde_json::to_value(case).unwrap();
                if f.class == "C09-F11" || f.class == "C09-F17" || f.class == "C09-F18" {
                    report.finding(ctx, f.class, f.message, case_json);
                } else {
                    report.violation(f.class, f.message, case_json);
                }
            }
            if !clean {
                report.count("cases_with_a_failed_relation");
                return;
            }
            let u = &case.url;
            let params = u.query.as_ref().map(|q| decoded_params(q).len()).unwrap_or(0);
            let touched = sanitize_path_literal(&u.text()) != u.text() || u.text().contains('%') || u.text().contains('+');
            if params >= 2 || touched {
                report.nontrivial(mix(fnv_str(&serde_json::to_string(&case.cfg).unwrap()), fnv_str(&u.text())));
            }
            if report.want_sample() && params >= 2 && touched && case.variants.len() >= 5 {
                report.sample(json!({"config": case.cfg, "url": u.text(), "variants": case.variants.iter().map(|(r, v)| json!([r, v.text()])).collect::<Vec<_>>()}));
            }
        }
    }
}

pub fn run(ctx: &Ctx, _args: &Args) -> i32 {
    let started = Instant::now();
    let jobs = ctx.jobs;
    let cfgs = configs();
    let urls_per_config: usize = ctx.tier.pick(3_000, 60_000);

    let report = run_sharded(jobs, |shard, report| {
        for (ci, cfg) in cfgs.iter().enumerate() {
            if ci % jobs != shard {
                continue;
            }
            let mut rng = Rng::stream(ctx.seed, 100 + ci as u64);
            for _ in 0..urls_per_config {
                let case = random_case(&mut rng, cfg.clone());
                record(ctx, &case, report);
            }
            report.state("configs_covered", format!("{ci}"));
        }
    });

    finish(
        ctx,
        report,
        "full 2^6 configuration flag cube x marketing sets {default 5 keys, {mk}, empty} x generated URLs (paths over mixed-case ASCII, unreserved and reserved punctuation, space, quotes, '+', '|', brackets, angle brackets, %20 %2B %2F %C3%A9 %FF, raw non-ASCII, characters the http URI parser rejects; queries with repeated keys, empty values, keys without '=', '&&', trailing '&', '?' alone); relations M1 self-match, M2 separation, M3 permutation, M4 marketing parameters + Location forwarding, M5 ASCII case swap, M6 idempotence (base URL and every variant, incl. Location after two re-normalisations), M1' the same literal rule declaring an unused marker answers identically, M7 forwarding to a catch-all target whose '?' comes from the captured text. non-trivial = distinct (config, URL) with >= 2 parameters or a character some encode set touches",
        &["the http crate's URI parser, used only to decide whether request-side normalisation was skipped (known-finding signature)", "harness-side form decoding / canonical query used only for generation and known-finding signatures"],
        started,
        1000,
    )
    .exit_code
}

pub fn replay(_ctx: &Ctx, case: &Value) -> i32 {
    let case: Case = match serde_json::from_value(case.clone()) {
        Ok(c) => c,
        Err(e) => {
            eprintln!("bad case: {e}");
            return 2;
        }
    };
    let failures = match guarded(|| check(&case)) {
        Err(p) => vec![format!("panic: {p}")],
        Ok((_, fails)) => fails.iter().map(|f| format!("[{}] {}", f.class, f.message)).collect(),
    };
    super::replay_verdict("C09", failures)
}
