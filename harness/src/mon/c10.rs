//! C10 — markers capture the matching text and are substituted into targets and filters.
//!
//! Generator-knows-the-answer monitor: templates over path, query, host and match_regex headers are
//! instantiated with strings accepted (or unambiguously rejected) by each marker expression; the rule
//! must match iff all instantiations are accepted, and every reference in the target, header-filter
//! values, body-filter values and Action::get_target must be replaced by T_i(v_i) (longest name first).

use super::Args;
use crate::prng::{fnv_str, Rng};
use crate::report::{finish, Ctx, Report};
use crate::util::{guarded, run_sharded};
use crate::world::*;
use heck::{ToKebabCase, ToLowerCamelCase, ToSnakeCase};
use redirectionio::action::Action;
use redirectionio::api::Rule;
use redirectionio::router::Router;
use serde::{Deserialize, Serialize};
use serde_json::{json, Value};
use std::collections::BTreeMap;
use std::time::Instant;

#[derive(Clone, Debug, Serialize, Deserialize)]
pub struct Expect {
    pub matches: bool,
    pub location: String,
    /// value of the X-Out header added by the rule's header filter
    pub header_value: String,
    /// text appended by the rule's text body filter
    pub body_text: String,
    /// value inserted by the rule's HTML body filter
    pub body_html: String,
    /// the HTML body filter's second value (`inner_value`, reported in traces and handed over in the serialised
    /// action): the explicit one with its references replaced, or the inserted value when the rule gives none
    #[serde(default)]
    pub inner_html: Option<String>,
}

#[derive(Clone, Debug, Serialize, Deserialize)]
pub struct Case {
    pub cfg: Cfg,
    pub rule: RuleSpec,
    pub request: ReqSpec,
    pub expect: Expect,
    /// for evidence: marker name -> instantiated value
    pub values: BTreeMap<String, String>,
    /// warm the regex cache (0 = never, 1 = once, 2 = twice) between insertion and the request
    #[serde(default)]
    pub cache_calls: u8,
    /// another request (same URL and host, other header values) is served by the same router first
    #[serde(default)]
    pub warm_up_with_other_headers: bool,
}

// ---------------------------------------------------------------------------------------------
// marker types

#[derive(Clone, Copy, PartialEq, Eq, Debug)]
pub enum Ty {
    Int,
    Low,
    Enum,
    Uuid,
    Date,
    Any,
    Pct,
    Up,
    /// words separated by single spaces: an expression with a literal space (header values only: a space in a
    /// path is percent-encoded by request sanitising, in a host it is not legal)
    Phrase,
    /// an expression that is a top-level alternation of groups: only the enclosing group added by the library
    /// keeps the alternatives from splitting the whole pattern
    AltGroups,
    /// a top-level alternation of bare branches
    AltPlain,
}

pub const TYPES: &[Ty] = &[Ty::Int, Ty::Low, Ty::Enum, Ty::Uuid, Ty::Date, Ty::Any, Ty::Pct, Ty::Up, Ty::Phrase, Ty::AltGroups, Ty::AltPlain];

impl Ty {
    pub fn expr(&self) -> &'static str {
        match self {
            Ty::Int => "[0-9]+",
            Ty::Low => "([\\p{Ll}]|\\-)+?",
            Ty::Enum => "(cat|dog|fish)",
            Ty::Uuid => "[a-fA-F0-9]{8}-[a-fA-F0-9]{4}-[a-fA-F0-9]{4}-[a-fA-F0-9]{4}-[a-fA-F0-9]{12}",
            Ty::Date => "([0-9]+)-(0[1-9]|1[012])-(0[1-9]|[12][0-9]|3[01])",
            Ty::Any => ".+?",
            Ty::Pct => "([\\p{Ll}0-9]|%[0-9A-Z]{2})+?",
            Ty::Up => "([A-Z]+?)",
            Ty::Phrase => "(smart tv|[a-z]+( [a-z]+)*)",
            Ty::AltGroups => "(?:[0-9]{4})|(?:latest)",
            Ty::AltPlain => "new|old|[0-9]{2}x",
        }
    }

    /// (string placed in the request, value the library is expected to capture)
    pub fn accepted(&self, rng: &mut Rng, in_path: bool) -> (String, String) {
        let same = |s: &str| (s.to_string(), s.to_string());
        match self {
            Ty::Int => same(*rng.pick(&["7", "42", "007", "1234567890"])),
            Ty::Low => same(*rng.pick(&["abc", "a-b", "x", "hello-world", "snake"])),
            Ty::Enum => same(*rng.pick(&["cat", "dog", "fish"])),
            Ty::Uuid => same(*rng.pick(&["123e4567-e89b-12d3-a456-426614174000", "AAAAAAAA-bbbb-CCCC-dddd-EEEEEEEEEEEE"])),
            Ty::Date => same(*rng.pick(&["2020-01-31", "1999-12-01", "5-10-09"])),
            Ty::Any => {
                // ('$' followed by a word character: a captured text is data, never a replacement template)
                let v = *rng.pick(&["x", "foo_bar", "Some Value", "CamelCaseText", "a,b;c", "\u{c9}t\u{e9} \u{e0} Paris", "stra\u{df}e", "deal-$5off", "$name$1"]);
                if in_path {
                    // the capture is taken from the sanitised URL
                    (v.to_string(), sanitize_path_literal(v))
                } else {
                    same(v)
                }
            }
            Ty::Pct => {
                if in_path {
                    // raw non-ASCII is percent-encoded by request sanitising; the capture is the sanitised form
                    match rng.below(3) {
                        0 => ("caf\u{e9}".to_string(), "caf%C3%A9".to_string()),
                        1 => ("caf%C3%A9".to_string(), "caf%C3%A9".to_string()),
                        _ => same("abc123"),
                    }
                } else {
                    same(*rng.pick(&["abc123", "x%20y", "caf%C3%A9"]))
                }
            }
            Ty::Up => same(*rng.pick(&["A", "XYZ", "HELLO"])),
            Ty::Phrase => same(*rng.pick(&["smart tv", "a b c", "x", "hello world"])),
            Ty::AltGroups => same(*rng.pick(&["2024", "latest", "0001", "latest"])),
            Ty::AltPlain => same(*rng.pick(&["new", "old", "42x"])),
        }
    }

    /// a string no alternative parse can accept: contains '!' (in no marker language except Any) — or is empty for Any
    pub fn rejected(&self, rng: &mut Rng) -> String {
        match self {
            Ty::Int => rng.pick(&["4!2", "!", "12!"]).to_string(),
            Ty::Low => rng.pick(&["ab!c", "!x"]).to_string(),
            Ty::Enum => rng.pick(&["bird!", "ca!t"]).to_string(),
            Ty::Uuid => "123e4567-e89b-12d3-a456-42661417400!".to_string(),
            Ty::Date => rng.pick(&["2020-13-01!", "2020-01-3!"]).to_string(),
            Ty::Any => String::new(),
            Ty::Pct => "ab!c".to_string(),
            Ty::Up => "AB!C".to_string(),
            Ty::Phrase => "smart! tv".to_string(),
            Ty::AltGroups => rng.pick(&["late!st", "20!24", "2024!"]).to_string(),
            Ty::AltPlain => rng.pick(&["ne!w", "42!x"]).to_string(),
        }
    }
}

// ---------------------------------------------------------------------------------------------
// transformer model

#[derive(Clone, Debug)]
pub enum Tr {
    Camelize,
    Dasherize,
    Lowercase,
    Uppercase,
    Underscorize,
    Replace(String, String),
    Slice(usize, Option<usize>),
    /// unknown / incomplete transformer: ignored
    Noop(Value),
}

impl Tr {
    pub fn json(&self) -> Value {
        match self {
            Tr::Camelize => json!({"type": "camelize", "options": null}),
            Tr::Dasherize => json!({"type": "dasherize", "options": null}),
            Tr::Lowercase => json!({"type": "lowercase", "options": null}),
            Tr::Uppercase => json!({"type": "uppercase", "options": {}}),
            Tr::Underscorize => json!({"type": "underscorize", "options": null}),
            Tr::Replace(a, b) => json!({"type": "replace", "options": {"something": a, "with": b}}),
            Tr::Slice(from, to) => json!({"type": "slice", "options": {"from": from.to_string(), "to": to.map(|t| t.to_string()).unwrap_or_else(|| "end".to_string())}}),
            Tr::Noop(v) => v.clone(),
        }
    }

    pub fn apply(&self, s: &str) -> String {
        match self {
            Tr::Camelize => s.to_lower_camel_case(),
            Tr::Dasherize => s.to_kebab_case(),
            Tr::Lowercase => s.to_lowercase(),
            Tr::Uppercase => s.to_uppercase(),
            Tr::Underscorize => s.to_snake_case(),
            Tr::Replace(a, b) => s.replace(a.as_str(), b.as_str()),
            Tr::Slice(from, to) => {
                // byte slice on ASCII input, from <= to (other inputs are C07's subject)
                if *from > s.len() {
                    String::new()
                } else {
                    let to = to.unwrap_or(s.len()).min(s.len()).max(*from);
                    if !s.is_char_boundary(*from) || !s.is_char_boundary(to) {
                        // an offset inside a multi-byte character: outside the statement (the generator
                        // discards the case; what the library does there is C07's subject)
                        OUT_OF_DOMAIN.with(|f| f.set(true));
                        return String::new();
                    }
                    s[*from..to].to_string()
                }
            }
            Tr::Noop(_) => s.to_string(),
        }
    }
}

fn random_transformers(rng: &mut Rng, ascii: bool) -> Vec<Tr> {
    let n = match rng.below(6) {
        0 | 1 | 2 => 0,
        3 | 4 => 1,
        _ => rng.range(2, 3),
    };
    (0..n)
        .map(|_| match rng.below(9) {
            0 => Tr::Camelize,
            1 => Tr::Dasherize,
            2 => Tr::Lowercase,
            3 => Tr::Uppercase,
            4 => Tr::Underscorize,
            5 => Tr::Replace(rng.pick(&["a", "-", "o", "x", "ab"]).to_string(), rng.pick(&["", "_", "zz", "A"]).to_string()),
            6 if ascii => {
                let from = rng.below(4);
                let to = if rng.coin() { Some(from + rng.below(4)) } else { None };
                Tr::Slice(from, to)
            }
            7 => Tr::Noop(json!({"type": "reverse", "options": null})),
            _ => Tr::Noop(json!({"type": "replace", "options": {"something": "a"}})),
        })
        .collect()
}

fn apply_all(trs: &[Tr], s: &str) -> String {
    let mut v = s.to_string();
    for t in trs {
        v = t.apply(&v);
    }
    v
}

// ---------------------------------------------------------------------------------------------
// generation

const NAME_SETS: &[&[&str]] = &[
    &["a", "ab", "abc", "abcd"],
    &["marker", "Marker", "marker2", "mark"],
    &["id", "id2", "i", "idx"],
    &["x", "y", "z", "xy"],
    &["name", "name_upper", "n", "na"],
];

// delimiters use characters outside every marker language, so instantiations parse uniquely
const DELIMS: &[&str] = &["/", "~", ":", "/p/", "/x~", ":/"];

struct Mk {
    name: String,
    ty: Ty,
    trs: Vec<Tr>,
    place: u8, // 0 path, 1 query, 2 host, 3 header
}

/// substitute references scanning left to right, longest known name first at each '@'
fn substitute(template: &str, values: &BTreeMap<String, String>) -> String {
    let chars: Vec<char> = template.chars().collect();
    let mut out = String::new();
    let mut i = 0;
    let mut names: Vec<&String> = values.keys().collect();
    names.sort_by_key(|n| std::cmp::Reverse(n.len()));
    while i < chars.len() {
        if chars[i] == '@' {
            let rest: String = chars[i + 1..].iter().collect();
            if let Some(n) = names.iter().find(|n| rest.starts_with(n.as_str())) {
                out.push_str(&values[*n]);
                i += 1 + n.chars().count();
                continue;
            }
        }
        out.push(chars[i]);
        i += 1;
    }
    out
}

thread_local! {
    /// set by the transformer model when a generated chain leaves the domain of the statement
    static OUT_OF_DOMAIN: std::cell::Cell<bool> = const { std::cell::Cell::new(false) };
}

pub fn random_case(rng: &mut Rng) -> Case {
    loop {
        OUT_OF_DOMAIN.with(|f| f.set(false));
        let case = random_case_unchecked(rng);
        if !OUT_OF_DOMAIN.with(|f| f.get()) {
            return case;
        }
    }
}

fn random_case_unchecked(rng: &mut Rng) -> Case {
    let mut cfg = Cfg::plain();
    cfg.ignore_marketing_query_params = rng.coin();
    if rng.chance(1, 4) {
        cfg.ignore_path_and_query_case = true;
    }
    if rng.chance(1, 4) {
        cfg.ignore_host_case = true;
    }
    let names = *rng.pick(NAME_SETS);
    let k = rng.range(1, names.len());
    let mut order: Vec<usize> = (0..names.len()).collect();
    rng.shuffle(&mut order);
    let reject_index = if rng.chance(1, 4) { Some(rng.below(k)) } else { None };
    let mut mks: Vec<Mk> = Vec::new();
    for i in 0..k {
        let mut ty = *rng.pick(TYPES);
        // rejection cases avoid a greedy Any marker next to the rejected one (no alternative parse)
        if reject_index.is_some() && ty == Ty::Any && reject_index != Some(i) {
            ty = Ty::Int;
        }
        let place = match rng.below(10) {
            0..=5 => 0,
            6 => 1,
            7 | 8 => 2,
            _ => 3,
        };
        // host and header values: keep types whose accepted strings are valid there
        if place == 2 && matches!(ty, Ty::Any | Ty::Pct | Ty::Date | Ty::Up) {
            ty = Ty::Low;
        }
        if place != 3 && ty == Ty::Phrase {
            ty = Ty::Low;
        }
        let ascii = ty != Ty::Pct;
        mks.push(Mk {
            name: names[order[i]].to_string(),
            ty,
            trs: random_transformers(rng, ascii),
            place,
        });
    }
    // upper-case markers cannot be told apart from lower-case ones under the case flags
    if cfg.ignore_path_and_query_case || cfg.ignore_host_case {
        for m in mks.iter_mut() {
            if m.ty == Ty::Up {
                m.ty = Ty::Int;
            }
        }
    }

    // instantiate
    let mut captured: BTreeMap<String, String> = BTreeMap::new();
    let mut placed: BTreeMap<String, String> = BTreeMap::new();
    let mut all_accepted = true;
    for (i, m) in mks.iter().enumerate() {
        if reject_index == Some(i) {
            placed.insert(m.name.clone(), m.ty.rejected(rng));
            captured.insert(m.name.clone(), String::new());
            all_accepted = false;
        } else {
            let (p, mut c) = m.ty.accepted(rng, m.place <= 1);
            if m.place == 2 && cfg.ignore_host_case {
                // the request host is lower-cased by normalisation under ignore_host_case
                c = c.to_lowercase();
            }
            placed.insert(m.name.clone(), p);
            captured.insert(m.name.clone(), c);
        }
    }

    // templates per place
    let mut path_t = String::from("/c10");
    let mut path_v = String::from("/c10");
    let mut query_t = String::new();
    let mut query_v = String::new();
    let mut host_t = String::new();
    let mut host_v = String::new();
    let mut headers_rule: Vec<HeaderCond> = Vec::new();
    let mut headers_req: Vec<(String, String)> = Vec::new();
    for m in &mks {
        let v = &placed[&m.name];
        match m.place {
            0 => {
                let d = *rng.pick(DELIMS);
                path_t.push_str(d);
                path_t.push('@');
                path_t.push_str(&m.name);
                path_v.push_str(d);
                path_v.push_str(v);
            }
            1 => {
                // one query parameter per marker, keys already in sorted order (k0 < k1 < ...)
                let key = format!("k{}", query_t.matches('=').count());
                let sep = if query_t.is_empty() { "" } else { "&" };
                query_t.push_str(&format!("{sep}{key}=@{}", m.name));
                query_v.push_str(&format!("{sep}{key}={v}"));
            }
            2 => {
                if host_t.is_empty() {
                    host_t = format!("@{}.example.org", m.name);
                    host_v = format!("{v}.example.org");
                } else {
                    host_t = format!("@{}.{}", m.name, host_t);
                    host_v = format!("{v}.{host_v}");
                }
            }
            _ => {
                let hname = format!("X-Mark-{}", headers_rule.len());
                headers_rule.push(HeaderCond {
                    name: hname.clone(),
                    kind: "match_regex".to_string(),
                    value: Some(Template::parse(&format!("v-@{}-end", m.name))),
                });
                // header names are case-insensitive: vary the case on the request side
                let req_name = match rng.below(3) {
                    0 => hname.clone(),
                    1 => hname.to_lowercase(),
                    _ => hname.to_uppercase(),
                };
                // a repeated header: extra values the expression rejects, before and/or after the accepted
                // one, must neither prevent the match nor disturb the capture (any value may satisfy the
                // condition, and the capture comes from the value that does)
                let decoy_name = |rng: &mut Rng| match rng.below(3) {
                    0 => hname.clone(),
                    1 => hname.to_lowercase(),
                    _ => hname.to_uppercase(),
                };
                if rng.chance(1, 5) {
                    let n = decoy_name(rng);
                    headers_req.push((n, rng.pick(&["decoy", "", "v--", "-end", "V-"]).to_string()));
                }
                headers_req.push((req_name, format!("v-{v}-end")));
                if rng.chance(1, 5) {
                    let n = decoy_name(rng);
                    headers_req.push((n, rng.pick(&["decoy", "", "v--", "-end", "V-"]).to_string()));
                }
            }
        }
    }
    path_t.push_str("/end");
    path_v.push_str("/end");
    // under the case policy the static text of the rule and of the request may differ in letter case: the rule
    // still matches and the captures are still taken (from the request as sent)
    if cfg.ignore_path_and_query_case && rng.coin() {
        let upper = |s: &str| format!("/C10{}/END", &s["/c10".len()..s.len() - "/end".len()]);
        if rng.coin() {
            path_t = upper(&path_t);
        } else {
            path_v = upper(&path_v);
        }
    }
    // a query marker whose value is empty makes the parameter syntactically different; keep such cases for the path only
    let full_t = if query_t.is_empty() { path_t.clone() } else { format!("{path_t}?{query_t}") };
    let mut full_v = if query_v.is_empty() { path_v.clone() } else { format!("{path_v}?{query_v}") };
    // a marketing parameter whose *value* looks like a marker reference: it is skipped for matching and forwarded
    // to the target as it is (the references of the target are replaced, the forwarded text is not a target)
    let mut forwarded = String::new();
    if cfg.ignore_marketing_query_params && cfg.pass_marketing_query_params_to_target && !mks.is_empty() && rng.chance(1, 6) {
        forwarded = format!("utm_campaign=@{}", mks[0].name);
        full_v = format!("{full_v}{}{forwarded}", if full_v.contains('?') { "&" } else { "?" });
    }

    // explicit variables (optional): only declared variables are substitutable then
    let use_variables = rng.chance(1, 3);
    let mut variables: Vec<Value> = Vec::new();
    let mut subst: BTreeMap<String, String> = BTreeMap::new();
    let marker_values: BTreeMap<String, String> = mks.iter().map(|m| (m.name.clone(), apply_all(&m.trs, &captured[&m.name]))).collect();
    let mut request_headers = headers_req.clone();
    let method = rng.pick(&[None, Some("GET"), Some("POST")]).map(|s| s.to_string());
    let scheme = rng.pick(&[None, Some("https")]).map(|s| s.to_string());
    let host_value = if host_t.is_empty() { rng.pick(&[None, Some("www.example.net")]).map(|s| s.to_string()) } else { Some(host_v.clone()) };
    if use_variables {
        // variables named after markers (possibly in "wrong" declaration order) and request-derived ones
        let mut decl: Vec<(String, Value, String)> = Vec::new();
        for m in &mks {
            let trs = random_transformers(rng, m.ty != Ty::Pct);
            let vname = if rng.coin() { m.name.clone() } else { format!("{}_v", m.name) };
            let value = apply_all(&trs, &marker_values[&m.name]);
            decl.push((
                vname.clone(),
                json!({"name": vname, "type": {"marker": m.name}, "transformers": trs.iter().map(|t| t.json()).collect::<Vec<_>>()}),
                value,
            ));
        }
        if rng.coin() {
            request_headers.push(("X-Var".to_string(), "HeaderValue".to_string()));
            decl.push(("hv".to_string(), json!({"name": "hv", "type": {"request_header": {"name": "x-var", "default": "dflt"}}}), "HeaderValue".to_string()));
        } else {
            decl.push(("hv".to_string(), json!({"name": "hv", "type": {"request_header": {"name": "x-absent", "default": "dflt"}}}), "dflt".to_string()));
        }
        if rng.coin() {
            decl.push(("hvx".to_string(), json!({"name": "hvx", "type": "request_host", "transformers": [{"type": "uppercase", "options": null}]}), host_value.clone().unwrap_or_default().to_uppercase()));
        }
        if rng.coin() {
            decl.push(("meth".to_string(), json!({"name": "meth", "type": "request_method"}), method.clone().unwrap_or_default()));
        }
        if rng.coin() {
            decl.push(("sch".to_string(), json!({"name": "sch", "type": "request_scheme"}), scheme.clone().unwrap_or_default()));
        }
        // (not together with a forwarded parameter: the path would carry "@name" text into a substituted value)
        if forwarded.is_empty() && rng.coin() {
            decl.push(("pth".to_string(), json!({"name": "pth", "type": "request_path"}), full_v.clone()));
        }
        rng.shuffle(&mut decl);
        for (n, j, v) in decl {
            if subst.contains_key(&n) {
                continue;
            }
            variables.push(j);
            subst.insert(n, v);
        }
    } else {
        subst = marker_values.clone();
    }

    // target and filters referencing everything substitutable (plus an unknown reference left literal)
    let mut refs: Vec<String> = subst.keys().cloned().collect();
    rng.shuffle(&mut refs);
    let mut target_t = String::from("/to");
    for r in &refs {
        target_t.push_str(*rng.pick(&["/", "-", "/x", "_"]));
        target_t.push('@');
        target_t.push_str(r);
    }
    if rng.chance(1, 3) {
        target_t.push_str("/@nosuchname");
    }
    if rng.chance(1, 3) {
        target_t.push_str("?q=1");
    }
    let header_t = format!("h:{}", refs.iter().map(|r| format!("@{r}")).collect::<Vec<_>>().join("|"));
    let text_t = format!("[T:{}]", refs.iter().map(|r| format!("@{r}")).collect::<Vec<_>>().join(","));
    let html_t = format!("<i data-v=\"{}\">c10</i>", refs.iter().map(|r| format!("@{r}")).collect::<Vec<_>>().join(" "));

    let mut rule = RuleSpec::simple("c10", "/");
    rule.path = Template::parse(&full_t);
    rule.host = if host_t.is_empty() { None } else { Some(Template::parse(&host_t)) };
    rule.headers = headers_rule;
    rule.markers = mks
        .iter()
        .map(|m| MarkerSpec {
            name: m.name.clone(),
            regex: m.ty.expr().to_string(),
            transformers: m.trs.iter().map(|t| t.json()).collect(),
        })
        .collect();
    rng.shuffle(&mut rule.markers);
    rule.effects.target = Some(target_t.clone());
    rule.effects.status_code = Some(302);
    rule.effects.variables = variables;
    rule.effects.header_filters = vec![("add".to_string(), "X-Out".to_string(), header_t.clone())];
    let inner_t: Option<String> = if rng.coin() { Some(format!("inner {}", refs.iter().map(|r| format!("<@{r}>")).collect::<Vec<_>>().join(""))) } else { None };
    let mut html_filter = json!({"action": "append_child", "value": html_t, "element_tree": ["html", "body"], "css_selector": null});
    if let Some(t) = &inner_t {
        html_filter["inner_value"] = json!(t);
    }
    rule.effects.body_filters = vec![json!({"action": "append_text", "content": text_t}), html_filter];

    let request = ReqSpec {
        url: full_v,
        host: host_value,
        scheme,
        method,
        ip: None,
        headers: request_headers,
        created_at: None,
        sampling_override: None,
    };

    Case {
        cfg,
        rule,
        request,
        expect: Expect {
            matches: all_accepted,
            location: {
                let base = substitute(&target_t, &subst);
                if forwarded.is_empty() {
                    base
                } else {
                    format!("{base}{}{forwarded}", if base.contains('?') { "&" } else { "?" })
                }
            },
            header_value: substitute(&header_t, &subst),
            body_text: substitute(&text_t, &subst),
            body_html: substitute(&html_t, &subst),
            inner_html: Some(substitute(inner_t.as_deref().unwrap_or(&html_t), &subst)),
        },
        values: placed,
        cache_calls: *rng.pick(&[0u8, 0, 1, 2]),
        warm_up_with_other_headers: rng.chance(1, 3),
    }
}

#[derive(Debug)]
pub struct Failure {
    pub class: &'static str,
    pub message: String,
}

pub fn check(case: &Case) -> Result<(), Failure> {
    let fail = |class: &'static str, message: String| Err(Failure { class, message });
    let mut router = Router::<Rule>::from_config(case.cfg.build());
    router.insert(case.rule.to_rule());
    for _ in 0..case.cache_calls {
        router.cache(Some(1000));
    }
    let config = case.cfg.build();
    // the router serves other requests before this one: same URL and host, other header values (whatever the route
    // remembered about an earlier request must not leak into this one)
    if case.warm_up_with_other_headers {
        let mut decoy = case.request.clone();
        for (_, v) in decoy.headers.iter_mut() {
            if let Some(inner) = v.strip_prefix("v-").and_then(|x| x.strip_suffix("-end")) {
                *v = format!("v-{}-end", if inner == "smart tv" { "x" } else { "smart tv" });
            }
        }
        decoy.headers.retain(|(n, _)| !n.eq_ignore_ascii_case("x-var"));
        decoy.headers.push(("X-Var".to_string(), "OtherHeaderValue".to_string()));
        let q = decoy.build(&config);
        let routes = router.match_request(&q);
        if !routes.is_empty() {
            let _ = Action::get_target(&routes[0], &q);
            let mut a = Action::from_routes_rule(routes, &q, None);
            let _ = a.filter_headers(Vec::new(), 302, false, None);
        }
    }
    let request = case.request.build(&config);
    let routes = router.match_request(&request);
    let matched = !routes.is_empty();
    if matched != case.expect.matches {
        return fail(
            "match",
            format!(
                "rule {} the request although {}; values {:?}, url {:?}",
                if matched { "matches" } else { "does not match" },
                if case.expect.matches { "every marker was instantiated with an accepted string" } else { "one marker was instantiated with a rejected string" },
                case.values,
                case.request.url
            ),
        );
    }
    if !matched {
        return Ok(());
    }
    let target = Action::get_target(&routes[0], &request);
    let mut action = Action::from_routes_rule(routes, &request, None);
    let status = action.get_status_code(0, None);
    if status != 302 {
        return fail("status", format!("status {status}, expected 302"));
    }
    let headers = action.filter_headers(Vec::new(), 302, false, None);
    let location = headers.iter().find(|h| h.name == "Location").map(|h| h.value.clone()).unwrap_or_default();
    let header_is_name_case = case
        .rule
        .headers
        .iter()
        .any(|r| case.request.headers.iter().any(|(qn, _)| r.name != *qn && r.name.to_lowercase() == qn.to_lowercase()));
    let classify = |what: &str, got: &str, want: &str| -> Failure {
        // F14: header marker not captured because capture compares header names case-sensitively
        let class = if header_is_name_case { "C10-F14" } else { "substitution" };
        Failure {
            class,
            message: format!("{what}: got {got:?}, expected {want:?}; values {:?}", case.values),
        }
    };
    if location != case.expect.location {
        return Err(classify("Location", &location, &case.expect.location));
    }
    if target.as_deref() != Some(case.expect.location.as_str()) {
        return Err(classify("Action::get_target", target.as_deref().unwrap_or("<none>"), &case.expect.location));
    }
    let out = headers.iter().find(|h| h.name == "X-Out").map(|h| h.value.clone()).unwrap_or_default();
    if out != case.expect.header_value {
        return Err(classify("header filter value", &out, &case.expect.header_value));
    }
    let response_headers = vec![redirectionio::http::Header {
        name: "Content-Type".to_string(),
        value: "text/html".to_string(),
    }];
    let body = match action.create_filter_body(302, &response_headers) {
        None => String::new(),
        Some(mut f) => {
            let mut o = f.filter(b"<html><body><p>x</p></body></html>".to_vec(), None);
            o.extend(f.end(None));
            String::from_utf8_lossy(&o).to_string()
        }
    };
    let want_body = format!("<html><body><p>x</p>{}</body></html>{}", case.expect.body_html, case.expect.body_text);
    if body != want_body {
        return Err(classify("body filter output", &body, &want_body));
    }
    if let Some(want_inner) = &case.expect.inner_html {
        // the second value of an HTML body filter is not inserted into the body; it is what the action hands over
        // (serialised action) and what traces report
        let j = serde_json::to_value(&action).unwrap_or(Value::Null);
        let mut found: Vec<String> = Vec::new();
        fn walk(v: &Value, found: &mut Vec<String>) {
            match v {
                Value::Object(m) => {
                    if m.contains_key("element_tree") {
                        if let Some(Value::String(i)) = m.get("inner_value") {
                            found.push(i.clone());
                        }
                    }
                    for x in m.values() {
                        walk(x, found);
                    }
                }
                Value::Array(a) => a.iter().for_each(|x| walk(x, found)),
                _ => {}
            }
        }
        walk(&j, &mut found);
        if found.len() != 1 || found[0] != *want_inner {
            return Err(classify("inner value of the HTML body filter (serialised action)", &format!("{found:?}"), want_inner));
        }
    }
    Ok(())
}

fn record(ctx: &Ctx, case: &Case, report: &mut Report) {
    report.eval();
    match guarded(|| check(case)) {
        Err(panic) => report.library_panic(&panic),
        Ok(Ok(())) => {
            let n_markers = case.rule.markers.len();
            let has_chain = case.rule.markers.iter().any(|m| !m.transformers.is_empty()) || !case.rule.effects.variables.is_empty();
            if n_markers >= 2 || has_chain {
                report.nontrivial(fnv_str(&serde_json::to_string(case).unwrap()));
            }
            report.count(if case.expect.matches { "cases_all_accepted" } else { "cases_with_a_rejected_value" });
            if !case.rule.effects.variables.is_empty() {
                report.count("cases_with_explicit_variables");
            }
            if case.cache_calls > 0 {
                report.count("cases_with_warmed_cache");
            }
            if case.rule.host.is_some() {
                report.count("cases_with_host_marker");
            }
            if !case.rule.headers.is_empty() {
                report.count("cases_with_header_marker");
            }
            if case.request.url.contains('?') {
                report.count("cases_with_query_marker");
            }
            for m in &case.rule.markers {
                for t in &m.transformers {
                    if let Some(k) = t.get("type").and_then(|k| k.as_str()) {
                        report.count(&format!("transformer_{k}"));
                    }
                }
            }
            if report.want_sample() && n_markers >= 3 && case.expect.matches && has_chain {
                report.sample(json!({"rule": case.rule.to_json(), "request": case.request, "expected_location": case.expect.location}));
            }
        }
        Ok(Err(f)) => {
            let j = serde_json::to_value(case).unwrap();
            if f.class == "C10-F14" {
                report.finding(ctx, "C10-F14", f.message, j);
            } else {
                report.violation(f.class, f.message, j);
            }
        }
    }
}

pub fn run(ctx: &Ctx, _args: &Args) -> i32 {
    let started = Instant::now();
    let jobs = ctx.jobs;
    let n: u64 = ctx.tier.pick(250_000, 6_000_000);
    let report = run_sharded(jobs, |shard, report| {
        let mut rng = Rng::stream(ctx.seed, shard as u64);
        for _ in 0..(n / jobs as u64) {
            let case = random_case(&mut rng);
            record(ctx, &case, report);
        }
    });
    finish(
        ctx,
        report,
        "templates over path, query, host and match_regex headers with 1-4 markers whose names are prefixes of one another (a/ab/abc/abcd, marker/Marker/marker2/mark, name/name_upper/n/na ...), 8 typed expressions (integer, lowercase, enum, uuid, date, anything, percent-encoded, upper-case) each with accepted strings and unambiguously rejected strings, marker transformer chains (camelize, dasherize, lowercase, uppercase, underscorize, replace, slice, unknown/incomplete), optional explicit variables (marker, request header with default, host, method, scheme, path; own transformers; shuffled declaration order); oracle: match <=> all accepted; Location, Action::get_target, header-filter value, text and HTML body-filter values == template with references replaced longest-name-first. non-trivial = distinct case with >= 2 markers or a transformer chain / explicit variables",
        &["std case mapping and the heck crate as transformer primitives", "captured values never contain '@'; slice on ASCII captures with from <= to (other inputs are C07's subject)"],
        started,
        1000,
    )
    .exit_code
}

pub fn replay(_ctx: &Ctx, case: &Value) -> i32 {
    let case: Case = match serde_json::from_value(case.clone()) {
        Ok(c) => c,
        Err(e) => {
            eprintln!("bad case: {e}");
            return 2;
        }
    };
    let failures = match guarded(|| check(&case)) {
        Err(p) => vec![format!("panic: {p}")],
        Ok(Err(f)) => vec![format!("[{}] {}", f.class, f.message)],
        Ok(Ok(())) => vec![],
    };
    super::replay_verdict("C10", failures)
}
