//! C11 — rule application is deterministic under any match or insertion order.
//!
//! Constancy monitor: the serialised action must not depend on the order in which matched rules are
//! handed to `Action::from_routes_rule`, nor on the insertion order / update history of the router;
//! and the contributing rules must be in the reference order (rank desc, ties by id desc).

use super::c05::{self, rule_from_grid, Grid};
use super::Args;
use crate::prng::{fnv_str, Rng};
use crate::report::{finish, Ctx, Report};
use crate::util::{guarded, permutations, run_sharded};
use crate::world::*;
use redirectionio::action::Action;
use redirectionio::api::Rule;
use redirectionio::router::Router;
use serde::{Deserialize, Serialize};
use serde_json::{json, Value};
use std::collections::HashSet;
use std::time::Instant;

#[derive(Clone, Debug, Serialize, Deserialize)]
pub struct Case {
    pub rules: Vec<RuleSpec>,
    /// seed of the permutations tried (all permutations when the list is short)
    pub perm_seed: u64,
}

const ID_POOL: &[&str] = &[
    "a", "A", "b", "B", "ab", "Ab", "aB", "AB", "a1", "A1", "a10", "a2", "rule-1", "Rule-1", "RULE-1", "rule-10", "z", "Z", "zz", "zZ", "m", "M", "n", "N", "0", "00", "1", "10",
    "é", "É", "id_x", "ID_X", "Id_X", "x-1", "X-1", "x-2", "X-2", "k1", "K1", "k2", "K2", "k3", "K3", "q", "Q", "qq", "QQ", "w", "W", "ww", "WW",
];

fn random_grid(rng: &mut Rng) -> Grid {
    Grid {
        status: *rng.pick(&[0usize, 1, 1, 2, 4]),
        cond: *rng.pick(&[0usize, 0, 1, 2, 3]),
        flags: *rng.pick(&[0usize, 0, 0, 1, 2, 4]),
        log: rng.below(3),
        hdr: rng.below(5),
        body: rng.below(3),
        sampling: 0, // sampling disabled (the property's precondition)
        target: rng.below(3),
    }
}

pub fn random_case(rng: &mut Rng) -> Case {
    let n = match rng.below(10) {
        0 => rng.range(33, 48), // large lists: sorting algorithms switch strategy above ~20-32 elements
        1 | 2 => rng.range(7, 20),
        _ => rng.range(2, 6),
    };
    let mut ids: Vec<&str> = ID_POOL.to_vec();
    rng.shuffle(&mut ids);
    let few_ranks: &[u16] = if rng.coin() { &[0, 0, 1] } else { &[0, 1, 1, 2, 7] };
    // in a third of the cases some rules carry triggers that the one request satisfies (client ip inside several
    // ranges of the same rule, method list, header condition): such rules sit in several buckets of the router
    let with_triggers = rng.chance(1, 3);
    // in a quarter of the cases the router ignores letter case and half of the rules are pattern rules
    let pattern_paths = rng.chance(1, 4);
    let rules = (0..n.min(ids.len()))
        .map(|i| {
            let mut r = rule_from_grid(ids[i], *rng.pick(few_ranks), random_grid(rng));
            r.path = Template::parse("/a");
            if pattern_paths && rng.coin() {
                // a pattern rule whose literal text is upper-case: matches "/a" under the case policy only
                r.path = Template::parse("/A@opt");
                r.markers = vec![crate::world::MarkerSpec { name: "opt".into(), regex: "x?".into(), transformers: vec![] }];
            }
            if with_triggers && rng.coin() {
                use IpSpec::{In, NotIn};
                match rng.below(8) {
                    // a time-of-day / weekday window that the request's reception time satisfies (Wednesday 13:00 UTC):
                    // such rules share one condition group of the date-time layer
                    6 => r.time = Some(vec![(Some("12:00:00".into()), None)]),
                    7 => r.weekdays = Some(vec!["Wed".into(), "Thu".into()]),
                    0 => r.ips = Some(vec![In("10.0.0.0/8".into()), In("10.1.0.0/16".into())]),
                    1 => r.ips = Some(vec![In("10.1.0.0/16".into()), In("10.1.2.3/32".into()), In("10.0.0.0/8".into())]),
                    2 => r.ips = Some(vec![In("10.0.0.0/8".into()), NotIn("192.168.0.0/16".into())]),
                    3 => r.methods = Some(vec!["GET".into(), "POST".into()]),
                    4 => {
                        r.headers = vec![HeaderCond {
                            name: "X-A".into(),
                            kind: "is_defined".into(),
                            value: None,
                        }]
                    }
                    _ => {
                        r.ips = Some(vec![In("10.0.0.0/8".into()), In("10.1.0.0/16".into())]);
                        r.methods = Some(vec!["GET".into()]);
                    }
                }
            }
            r
        })
        .collect();
    Case {
        rules,
        perm_seed: rng.next_u64(),
    }
}

fn ser(a: &Action) -> String {
    serde_json::to_string(a).unwrap_or_else(|e| format!("<serialisation error {e}>"))
}

pub struct Stats {
    pub tied: bool,
    pub permutations: u64,
    pub routers: u64,
}

pub fn check(case: &Case) -> Result<Stats, String> {
    let k = case.rules.len();
    let base = c05::build_action(&case.rules, None, None);
    let a0 = ser(&base);
    let mut rng = Rng::new(case.perm_seed);
    let mut stats = Stats {
        tied: false,
        permutations: 0,
        routers: 0,
    };
    let mut ranks = HashSet::new();
    for r in &case.rules {
        if !ranks.insert(r.rank) {
            stats.tied = true;
        }
    }

    // (i) permutations of the matched list
    let perms: Vec<Vec<usize>> = if k <= 6 {
        permutations(k)
    } else {
        (0..60)
            .map(|_| {
                let mut p: Vec<usize> = (0..k).collect();
                rng.shuffle(&mut p);
                p
            })
            .chain(std::iter::once((0..k).rev().collect()))
            .collect()
    };
    for p in &perms {
        let a = ser(&c05::build_action(&case.rules, None, Some(p)));
        stats.permutations += 1;
        if a != a0 {
            return Err(format!("permutation {p:?} of the matched rules changes the serialised action:\n  {a0}\n  {a}"));
        }
    }

    // reference order of the contributing rules (rank desc, ties by id desc), via the C05 fold
    let list = c05::contributing(&case.rules, None, &mut c05::FoldTrace::default());
    let want_ids: Vec<String> = list.iter().map(|r| r.id.clone()).collect();
    let v: Value = serde_json::from_str(&a0).map_err(|e| format!("action json: {e}"))?;
    let got_ids: Vec<String> = v
        .get("rule_ids")
        .and_then(|x| x.as_array())
        .map(|x| x.iter().filter_map(|s| s.as_str().map(|s| s.to_string())).collect())
        .unwrap_or_default();
    if got_ids != want_ids {
        return Err(format!("contributing rules are not in the reference order (rank desc, ties by id desc): action lists {got_ids:?}, reference {want_ids:?}"));
    }

    // (ii) routers with permuted insertion orders, (iii) different update histories with the same live set
    let mut cfg = Cfg::plain();
    if case.rules.iter().any(|r| !r.markers.is_empty()) {
        cfg.ignore_path_and_query_case = true;
    }
    let config = cfg.build();
    // the one request satisfies every trigger the generator hands out
    let mut rich = ReqSpec::get("/a");
    rich.ip = Some("10.1.2.3".to_string());
    rich.method = Some("GET".to_string());
    rich.headers = vec![("X-A".to_string(), "Foo".to_string())];
    rich.created_at = Some("2024-01-10T13:00:00Z".to_string());
    let request = rich.build(&config);
    let n_routers = if k <= 6 { 14 } else { 7 };
    for variant in 0..n_routers {
        let mut order: Vec<usize> = (0..k).collect();
        rng.shuffle(&mut order);
        let mut router = Router::<Rule>::from_config(cfg.build());
        match variant % 7 {
            6 => {
                // everything inserted, a change-set that concerns none of the rules, then half of the rules removed one
                // by one and inserted again
                for i in &order {
                    router.insert(case.rules[*i].to_rule());
                }
                router.apply_change_set(vec![], vec![], ["no-such-rule".to_string()].into_iter().collect());
                for i in order.iter().step_by(2) {
                    router.remove(&case.rules[*i].id);
                }
                for i in order.iter().step_by(2) {
                    router.insert(case.rules[*i].to_rule());
                }
            }
            4 => {
                // an earlier version of some rules (several methods, other effects) is live first, then replaced the
                // way a single-rule update does it: remove(id), insert(new version)
                for i in &order {
                    let r = &case.rules[*i];
                    if rng.coin() {
                        let mut old = r.clone();
                        old.methods = Some(vec!["GET".into(), "PUT".into(), "POST".into()]);
                        old.effects.status_code = Some(307);
                        old.effects.header_filters = vec![("add".to_string(), "X-Old-Version".to_string(), "1".to_string())];
                        router.insert(old.to_rule());
                        router.remove(&r.id);
                    }
                    router.insert(r.to_rule());
                }
            }
            5 => {
                // everything inserted, everything removed again (one by one or in one batch), everything re-inserted
                for i in &order {
                    router.insert(case.rules[*i].to_rule());
                }
                if rng.coin() {
                    for i in order.iter().rev() {
                        router.remove(&case.rules[*i].id);
                    }
                } else {
                    router.apply_change_set(vec![], vec![], case.rules.iter().map(|r| r.id.clone()).collect());
                }
                for i in &order {
                    router.insert(case.rules[*i].to_rule());
                }
            }
            3 => {
                // earlier versions of some rules (another trigger set, still satisfied by the request, other
                // effects) are live first; an update-only change-set (nothing deleted) brings the final versions
                let mut updated = Vec::new();
                for i in &order {
                    let r = &case.rules[*i];
                    if rng.coin() {
                        let mut old = r.clone();
                        old.methods = Some(vec!["GET".into(), "PUT".into()]);
                        old.headers.clear();
                        old.effects.status_code = Some(307);
                        old.effects.header_filters = vec![("add".to_string(), "X-Old-Version".to_string(), "1".to_string())];
                        router.insert(old.to_rule());
                        updated.push(r.to_rule());
                    } else {
                        router.insert(r.to_rule());
                    }
                }
                router.apply_change_set(vec![], updated, Default::default());
            }
            0 => {
                for i in &order {
                    router.insert(case.rules[*i].to_rule());
                }
            }
            1 => {
                // insert everything, remove half, re-insert
                for i in &order {
                    router.insert(case.rules[*i].to_rule());
                }
                for i in order.iter().step_by(2) {
                    router.remove(&case.rules[*i].id);
                }
                for i in order.iter().step_by(2).rev() {
                    router.insert(case.rules[*i].to_rule());
                }
            }
            _ => {
                let (first, second) = order.split_at(k / 2);
                router.apply_change_set(first.iter().map(|i| case.rules[*i].to_rule()).collect(), vec![], Default::default());
                router.cache(None);
                router.apply_change_set(
                    second.iter().map(|i| case.rules[*i].to_rule()).collect(),
                    first.iter().take(1).map(|i| case.rules[*i].to_rule()).collect(),
                    Default::default(),
                );
            }
        }
        let matched = router.match_request(&request);
        if matched.len() != k {
            return Err(format!("router variant {variant}: {} rules matched, expected {k}", matched.len()));
        }
        let a = ser(&Action::from_routes_rule(matched, &request, None));
        stats.routers += 1;
        if a != a0 {
            return Err(format!("router built with insertion order {order:?} (variant {variant}) yields a different action:\n  {a0}\n  {a}"));
        }
    }
    Ok(stats)
}

fn record(case: &Case, report: &mut Report) {
    report.eval();
    match guarded(|| check(case)) {
        Err(panic) => report.library_panic(&panic),
        Ok(Err(m)) => report.violation("order-dependent", m, serde_json::to_value(case).unwrap()),
        Ok(Ok(stats)) => {
            report.count_n("permutations_compared", stats.permutations);
            report.count_n("differently_built_routers_compared", stats.routers);
            if stats.tied {
                report.nontrivial(fnv_str(&serde_json::to_string(&case.rules).unwrap()));
            }
            if case.rules.len() > 32 {
                report.count("lists_with_more_than_32_matched_rules");
            }
            if report.want_sample() && stats.tied && case.rules.len() <= 4 {
                report.sample(json!({"rules": case.rules.iter().map(|r| r.to_json()).collect::<Vec<_>>(), "permutations": stats.permutations}));
            }
        }
    }
}

/// a world (any rules, also raw fixture rules) and a request: permuting the matched routes, and building the
/// router in another insertion order, must give the same serialised action
pub fn check_world(world: &World, request: &ReqSpec, perm_seed: u64) -> Result<usize, String> {
    let config = world.cfg.build();
    let q = request.build(&config);
    let router = world.router();
    let matched = router.match_request(&q);
    let base = ser(&Action::from_routes_rule(matched.clone(), &q, None));
    let mut rng = Rng::new(perm_seed);
    for _ in 0..4 {
        let mut p = matched.clone();
        rng.shuffle(&mut p);
        let a = ser(&Action::from_routes_rule(p, &q, None));
        if a != base {
            return Err(format!("a permutation of the {} matched rules changes the serialised action:\n  {base}\n  {a}", matched.len()));
        }
    }
    for _ in 0..2 {
        let mut shuffled = world.clone();
        rng.shuffle(&mut shuffled.rules);
        let other = shuffled.router();
        let a = ser(&Action::from_routes_rule(other.match_request(&q), &q, None));
        if a != base {
            return Err(format!("inserting the same rules in another order changes the serialised action:\n  {base}\n  {a}"));
        }
    }
    Ok(matched.len())
}

#[derive(Clone, Debug, Serialize, Deserialize)]
pub struct WorldCase {
    pub world: World,
    pub request: ReqSpec,
    pub perm_seed: u64,
}

pub fn run(ctx: &Ctx, _args: &Args) -> i32 {
    let started = Instant::now();
    let jobs = ctx.jobs;
    let n: u64 = ctx.tier.pick(40_000, 1_000_000);
    let fixtures = crate::fixtures::load();
    let fixture_requests: Vec<ReqSpec> = fixtures.iter().flat_map(|f| f.requests.iter().cloned()).collect();
    let n_worlds: u64 = ctx.tier.pick(2_400, 48_000);
    let report = run_sharded(jobs, |shard, report| {
        let mut rng = Rng::stream(ctx.seed, shard as u64);
        for _ in 0..(n / jobs as u64) {
            let case = random_case(&mut rng);
            record(&case, report);
        }
        // routers of the C01 generator (all trigger layers: a rule can sit in several buckets, e.g. one per satisfied
        // ip constraint): the action must not depend on the instance (every HashMap has its own RandomState)
        for _ in 0..(n_worlds / jobs as u64) {
            let world = super::c01::random_world(&mut rng, 10);
            let model = Model::new(&world.cfg, &world.rules);
            let probes: Vec<ReqSpec> = probes_for(&model, &mut rng, 1, 2).into_iter().map(|(q, _)| q).take(6).collect();
            for q in probes {
                report.eval();
                let case = WorldCase {
                    world: world.clone(),
                    request: q,
                    perm_seed: rng.next_u64(),
                };
                match guarded(|| check_world(&case.world, &case.request, case.perm_seed)) {
                    Err(p) => report.library_panic(&p),
                    Ok(Err(m)) => report.violation("order-dependent", m, json!({"world_case": case})),
                    Ok(Ok(k)) => {
                        report.count("generated_world_pairs_checked");
                        if k >= 2 {
                            report.count("generated_world_pairs_with_2_or_more_matched_rules");
                        }
                    }
                }
            }
        }
        // the repository's fixture rule sets: realistic effects (markers, variables, filters) under permutation
        for (i, fx) in fixtures.iter().enumerate() {
            if i % jobs != shard {
                continue;
            }
            let mut probes = fx.requests.clone();
            for _ in 0..6 {
                probes.push(rng.pick(&fixture_requests).clone());
            }
            for q in probes {
                report.eval();
                let case = WorldCase {
                    world: fx.world.clone(),
                    request: q,
                    perm_seed: rng.next_u64(),
                };
                match guarded(|| check_world(&case.world, &case.request, case.perm_seed)) {
                    Err(p) => report.library_panic(&p),
                    Ok(Err(m)) => report.violation("order-dependent", m, json!({"world_case": case})),
                    Ok(Ok(k)) => {
                        report.count("fixture_pairs_checked");
                        if k >= 2 {
                            report.count("fixture_pairs_with_2_or_more_matched_rules");
                        }
                    }
                }
            }
        }
    });
    finish(
        ctx,
        report,
        "the repository's fixture rule sets and routers of the C01 generator with their requests (permuted matched lists, shuffled insertion order, rebuilt instances), and rule sets of 2-48 rules all matching one request, few distinct ranks (many ties), ids from a pool with case variants / prefixes / digits / non-ASCII, conflicting effects (status codes, override of one shared header, reset/stop at tied ranks), sampling disabled; compared: all k! permutations of the matched list (k<=6) or 61 random ones, routers built with permuted insertion orders / remove+re-insert / two change-sets with cache in between (each HashMap has its own RandomState), and the order of the contributing rules against (rank desc, id desc). non-trivial = distinct rule set with at least two rules sharing a rank",
        &["serde_json serialisation as the observable", "the C05 reference order"],
        started,
        200,
    )
    .exit_code
}

pub fn replay(_ctx: &Ctx, case: &Value) -> i32 {
    if let Some(wc) = case.get("world_case") {
        let failures = match serde_json::from_value::<WorldCase>(wc.clone()) {
            Err(e) => vec![format!("bad case: {e}")],
            Ok(c) => match guarded(|| check_world(&c.world, &c.request, c.perm_seed)) {
                Err(p) => vec![format!("panic: {p}")],
                Ok(Err(m)) => vec![m],
                Ok(Ok(_)) => vec![],
            },
        };
        return super::replay_verdict("C11", failures);
    }
    let case: Case = match serde_json::from_value(case.clone()) {
        Ok(c) => c,
        Err(e) => {
            eprintln!("bad case: {e}");
            return 2;
        }
    };
    let failures = match guarded(|| check(&case)) {
        Err(p) => vec![format!("panic: {p}")],
        Ok(Err(m)) => vec![m],
        Ok(Ok(_)) => vec![],
    };
    super::replay_verdict("C11", failures)
}
