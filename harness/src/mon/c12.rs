//! C12 — regex caching is transparent: warming the cache never changes answers.
//!
//! Twin monitor: the same update history is applied to two routers; one of them additionally receives
//! cache(n) calls at arbitrary points. After every op match ids, captures of every matched route and
//! the canonicalised trace must be identical for every probe. For trees: exhaustive (limit, level)
//! and pairs of cache calls on small pattern sets against an uncached twin and the linear model.
//! A thread stress exercises the RwLock<LazyRegex> shared between a router and its clones.

use super::c02::{self, Op};
use super::c08;
use super::Args;
use crate::prng::{fnv_str, Rng};
use crate::report::{finish, Ctx, Report};
use crate::util::{guarded, run_sharded};
use crate::world::*;
use redirectionio::api::{Rule, RuleChangeSet};
use redirectionio::regex_radix_tree::RegexTreeMap;
use redirectionio::router::Router;
use serde::{Deserialize, Serialize};
use serde_json::{json, Value};
use std::collections::{BTreeMap, BTreeSet, HashSet};
use std::sync::Arc;
use std::time::Instant;

#[derive(Clone, Debug, Serialize, Deserialize)]
pub enum Case {
    Router(c02::Case),
    Tree {
        ignore_case: bool,
        patterns: Vec<String>,
        haystacks: Vec<String>,
        /// (limit, level) calls applied to the cached twin, in order
        calls: Vec<(u64, Option<u64>)>,
    },
    /// patterns beyond the rule shape (top-level classes, counted repetitions, alternations, patterns that do not
    /// compile): only transparency is checked (cached twin == never-cached twin), not agreement with a linear scan
    RawTree {
        ignore_case: bool,
        patterns: Vec<String>,
        haystacks: Vec<String>,
        calls: Vec<(u64, Option<u64>)>,
    },
}

/// recursively sort arrays so that hash-ordered collections compare equal
pub fn canon(v: &Value) -> Value {
    match v {
        Value::Array(items) => {
            let mut c: Vec<Value> = items.iter().map(canon).collect();
            c.sort_by_key(|x| x.to_string());
            Value::Array(c)
        }
        Value::Object(map) => {
            let mut m = serde_json::Map::new();
            let mut keys: Vec<&String> = map.keys().collect();
            keys.sort();
            for k in keys {
                m.insert(k.clone(), canon(&map[k]));
            }
            Value::Object(m)
        }
        other => other.clone(),
    }
}

#[derive(Debug, PartialEq, Eq)]
pub struct Answer {
    pub ids: Vec<String>,
    pub captures: Vec<(String, BTreeMap<String, String>)>,
    pub trace: String,
}

pub fn answer(router: &Router<Rule>, config: &redirectionio::RouterConfig, q: &ReqSpec) -> Answer {
    let request = q.build(config);
    let routes = router.match_request(&request);
    let ids = ids_of(&routes);
    let mut captures: Vec<(String, BTreeMap<String, String>)> = routes
        .iter()
        .map(|r| (r.id().to_string(), r.capture(&request).into_iter().collect::<BTreeMap<_, _>>()))
        .collect();
    captures.sort();
    let traces = router.trace_request(&q.build_raw());
    let trace = canon(&serde_json::to_value(&traces).unwrap_or(Value::Null)).to_string();
    Answer { ids, captures, trace }
}

#[derive(Default)]
pub struct Obs {
    pub cache_states: BTreeSet<(usize, usize)>,
    pub comparisons: u64,
    pub cache_calls: u64,
    pub captures_nonempty: u64,
}

fn cache_state(router: &Router<Rule>) -> (usize, usize) {
    let dump = router.verif_dump();
    let mut compiled = 0;
    let mut total = 0;
    for (_, tree) in &dump.trees {
        let st = c08::stats_of(tree);
        compiled += st.compiled;
        total += st.total;
    }
    (compiled, total)
}

fn apply(router: Router<Rule>, op: &Op, with_cache: bool) -> Router<Rule> {
    let mut router = router;
    match op {
        Op::Insert(rule) => {
            if router.get_route_by_id(&rule.id).is_none() {
                router.insert(rule.to_rule());
            }
        }
        Op::Remove(id) => {
            router.remove(id);
        }
        Op::BatchRemove(ids) => {
            let set: HashSet<String> = ids.iter().cloned().collect();
            router.batch_remove(&set);
        }
        Op::ChangeSet { added, updated, deleted } => {
            router.apply_change_set(
                added.iter().filter(|r| router.get_route_by_id(&r.id).is_none() || deleted.contains(&r.id)).map(|r| r.to_rule()).collect(),
                updated.iter().map(|r| r.to_rule()).collect(),
                deleted.iter().cloned().collect(),
            );
        }
        Op::CloneMutate { added, updated, deleted } => {
            let change_set = RuleChangeSet {
                added: added.iter().filter(|r| router.get_route_by_id(&r.id).is_none() || deleted.contains(&r.id)).map(|r| r.to_rule()).collect(),
                updated: updated.iter().map(|r| r.to_rule()).collect(),
                deleted: deleted.iter().cloned().collect(),
            };
            router = change_set.update_existing_router(Arc::new(router));
        }
        Op::Cache(limit) => {
            if with_cache {
                router.cache(*limit);
            }
        }
    }
    router
}

pub fn check_router(case: &c02::Case, obs: &mut Obs) -> Result<(), String> {
    let config = case.cfg.build();
    let mut plain = Router::<Rule>::from_config(case.cfg.build());
    let mut cached = Router::<Rule>::from_config(case.cfg.build());
    for (step, op) in case.ops.iter().enumerate() {
        plain = apply(plain, op, false);
        cached = apply(cached, op, true);
        if matches!(op, Op::Cache(_)) {
            obs.cache_calls += 1;
        }
        obs.cache_states.insert(cache_state(&cached));
        if plain.len() != cached.len() {
            return Err(format!("step {step}: len differs between the cached ({}) and the uncached ({}) twin", cached.len(), plain.len()));
        }
        for q in &case.probes {
            let a = answer(&plain, &config, q);
            let b = answer(&cached, &config, q);
            obs.comparisons += 1;
            if a.captures.iter().any(|(_, c)| !c.is_empty()) {
                obs.captures_nonempty += 1;
            }
            if a.ids != b.ids {
                return Err(format!("step {step} {op:?}: match differs: uncached {:?}, cached {:?} for {q:?}", a.ids, b.ids));
            }
            if a.captures != b.captures {
                return Err(format!("step {step} {op:?}: captures differ: uncached {:?}, cached {:?} for {q:?}", a.captures, b.captures));
            }
            if a.trace != b.trace {
                return Err(format!("step {step} {op:?}: trace differs for {q:?}:\n  uncached {}\n  cached   {}", a.trace, b.trace));
            }
        }
    }
    Ok(())
}

pub fn check_tree(ignore_case: bool, patterns: &[String], haystacks: &[String], calls: &[(u64, Option<u64>)], obs: &mut Obs) -> Result<(), String> {
    let plain = plain_tree_answers(ignore_case, patterns, haystacks);
    check_tree_against(ignore_case, patterns, haystacks, &plain, calls, obs)
}

/// answers of the never-cached twin, computed once per pattern set
pub fn plain_tree_answers(ignore_case: bool, patterns: &[String], haystacks: &[String]) -> Vec<Vec<u32>> {
    let mut plain = RegexTreeMap::<u32>::new(ignore_case);
    for (i, p) in patterns.iter().enumerate() {
        plain.insert(p, &format!("id{i}"), i as u32);
    }
    haystacks
        .iter()
        .map(|s| {
            let mut a: Vec<u32> = plain.find(s).into_iter().copied().collect();
            a.sort();
            a
        })
        .collect()
}

pub const RAW_SETS: &[&[&str]] = &[
    &["/n/a{2}x", "/n/a{3}y", "/n/ok"],
    &["/a[bc]x", "/a[bd]y", "/a/plain"],
    &["/z/q", "/a[bc]x", "/a[bd]y", "/a/plain"],
    &["/x(a|b)c", "/x(a|c)d", "/x(a"],
    &["/p/a+b", "/p/a+c", "/p/a"],
    &["/q/a*", "/q/a?b", "/q/a{1,2}c"],
    &["/r/\\d{2,3}z", "/r/\\d{2,4}y", "/r/\\d{2"],
    &["/s/a|b", "/s/a|c", "/s/"],
    &["/u/(?i)ab", "/u/(?i)ac"],
    &["/v/x{", "/v/x{1", "/v/x"],
    &["/w/[^/]+/a", "/w/[^/]+/b", "/w/[^"],
    &["/y/\\p{Lu}x", "/y/\\p{Ll}x", "/y/\\p{"],
    &["", "/", "//"],
    // a quantifier or a top-level alternation right after the literal head, in a leaf that shares only "/" with
    // its siblings (the node prefix must not swallow the construct)
    &["/colou?r/x", "/z"],
    &["/ab*c", "/z"],
    &["/xy{0,2}z", "/w"],
    &["/en/home|/fr/accueil", "/de"],
    &["/k(a)?b", "/k2"],
    // literal prefixes whose letters have non-ASCII case variants (Unicode simple case folding under ignore_case)
    &["/\u{fc}n\u{ef}/a1", "/\u{fc}n\u{ef}/b2"],
    &["shop1", "shop2"],
    &["m\u{fc}nchen42.example.com", "m\u{fc}nchen43.example.com"],
    // ASCII-only patterns whose Perl classes are Unicode-aware: looked up with non-ASCII text
    &["/t/\\w+x", "/t/\\w+y"],
    &["/d/\\d+a", "/d/\\d+b", "/d/\\s"],
];

pub const RAW_HAYSTACKS: &[&str] = &[
    "/n/aax", "/n/aaay", "/n/ok", "/abx", "/ady", "/acx", "/a/plain", "/z/q", "/xac", "/xcd", "/xbc", "/p/aab", "/p/ac", "/p/a", "/q/", "/q/aaa", "/q/b", "/q/ab", "/q/aac", "/r/12z",
    "/r/1234y", "/r/123y", "/s/a", "b", "c", "/s/", "/u/AB", "/u/ac", "/v/x{", "/v/x", "/v/x{1", "/w/k/a", "/w/k/b", "/y/Ax", "/y/ax", "", "/", "//", "/nope",
    "/color/x", "/colour/x", "/ac", "/abc", "/abbc", "/xz", "/xyz", "/xyyz", "/fr/accueil", "/en/home", "/de", "/kb", "/kab", "/z", "/w",
    "/t/caf\u{e9}x", "/t/\u{65e5}\u{672c}y", "/t/abx", "/d/\u{661}\u{662}a", "/d/12b", "/d/\u{2003}",
    "/\u{dc}N\u{cf}/a1", "/\u{dc}n\u{ef}/b2", "/\u{fc}n\u{ef}/a1", "\u{17f}hop1", "SHOP2", "shop1", "M\u{dc}NCHEN42.example.com", "m\u{fc}nchen43.EXAMPLE.com",
];

/// transparency only: the cached twin must answer exactly like the never-cached one (same values, same len)
pub fn check_raw_tree(ignore_case: bool, patterns: &[String], haystacks: &[String], calls: &[(u64, Option<u64>)], obs: &mut Obs) -> Result<(), String> {
    let plain = plain_tree_answers(ignore_case, patterns, haystacks);
    let mut cached = RegexTreeMap::<u32>::new(ignore_case);
    for (i, p) in patterns.iter().enumerate() {
        cached.insert(p, &format!("id{i}"), i as u32);
    }
    for (n, (limit, level)) in calls.iter().enumerate() {
        let left = cached.cache(*limit, *level);
        obs.cache_calls += 1;
        if left > *limit {
            return Err(format!("cache({limit}, {level:?}) returned {left}"));
        }
        let st = c08::stats_of(&cached.verif_snapshot());
        obs.cache_states.insert((st.compiled, st.total));
        for (h, s) in haystacks.iter().enumerate() {
            let mut b: Vec<u32> = cached.find(s).into_iter().copied().collect();
            b.sort();
            obs.comparisons += 1;
            if plain[h] != b {
                return Err(format!("raw patterns {patterns:?}: after cache calls {:?}: find({s:?}) uncached {:?}, cached {b:?}", &calls[..=n], plain[h]));
            }
        }
        if cached.len() != patterns.len() {
            return Err("len differs after cache".to_string());
        }
    }
    Ok(())
}

pub fn check_tree_against(
    ignore_case: bool,
    patterns: &[String],
    haystacks: &[String],
    plain: &[Vec<u32>],
    calls: &[(u64, Option<u64>)],
    obs: &mut Obs,
) -> Result<(), String> {
    let mut cached = RegexTreeMap::<u32>::new(ignore_case);
    for (i, p) in patterns.iter().enumerate() {
        cached.insert(p, &format!("id{i}"), i as u32);
    }
    for (n, (limit, level)) in calls.iter().enumerate() {
        let left = cached.cache(*limit, *level);
        obs.cache_calls += 1;
        if left > *limit {
            return Err(format!("cache({limit}, {level:?}) returned {left}"));
        }
        let st = c08::stats_of(&cached.verif_snapshot());
        obs.cache_states.insert((st.compiled, st.total));
        for (h, s) in haystacks.iter().enumerate() {
            let a = &plain[h];
            let mut b: Vec<u32> = cached.find(s).into_iter().copied().collect();
            let mut m: Vec<u32> = patterns.iter().enumerate().filter(|(_, p)| c08::oracle_match(p, ignore_case, s)).map(|(i, _)| i as u32).collect();
            b.sort();
            m.sort();
            obs.comparisons += 1;
            if *a != b || b != m {
                return Err(format!("after cache calls {:?}: find({s:?}) uncached {a:?}, cached {b:?}, linear scan {m:?}", &calls[..=n]));
            }
        }
        if cached.len() != patterns.len() {
            return Err("len differs after cache".to_string());
        }
    }
    Ok(())
}

/// threads matching on a shared router while another thread warms the cache of a clone that shares the routes
pub fn stress(world: &World, probes: &[ReqSpec], rounds: usize) -> Result<u64, String> {
    let config = world.cfg.build();
    let router = Arc::new(world.router());
    let recorded: Vec<Answer> = probes.iter().map(|q| answer(&router, &config, q)).collect();
    let failures = std::sync::Mutex::new(Vec::<String>::new());
    let done = std::sync::atomic::AtomicBool::new(false);
    let compared = std::sync::atomic::AtomicU64::new(0);
    std::thread::scope(|scope| {
        for t in 0..4 {
            let router = router.clone();
            let recorded = &recorded;
            let failures = &failures;
            let done = &done;
            let compared = &compared;
            let config = &config;
            scope.spawn(move || {
                let mut i = t;
                while !done.load(std::sync::atomic::Ordering::Relaxed) {
                    let k = i % probes.len();
                    let a = answer(&router, config, &probes[k]);
                    compared.fetch_add(1, std::sync::atomic::Ordering::Relaxed);
                    if a != recorded[k] {
                        failures.lock().unwrap().push(format!("answer for {:?} changed while a clone was being cached: {:?} -> {:?}", probes[k], recorded[k].ids, a.ids));
                        break;
                    }
                    i += 1;
                }
            });
        }
        for round in 0..rounds {
            let mut clone = router.as_ref().clone();
            clone.cache(Some((round as u64 % 5) * 7));
            clone.cache(None);
            let extra = RuleSpec::simple(&format!("extra{round}"), "/a/@n/extra");
            let mut extra = extra;
            extra.markers = vec![MarkerSpec { name: "n".into(), regex: "[0-9]+".into(), transformers: vec![] }];
            clone.insert(extra.to_rule());
            clone.cache(Some(1000));
        }
        done.store(true, std::sync::atomic::Ordering::Relaxed);
    });
    let after: Vec<Answer> = probes.iter().map(|q| answer(&router, &config, q)).collect();
    if after != recorded {
        return Err("answers of the shared router changed after caching its clones".to_string());
    }
    let f = failures.into_inner().unwrap();
    if let Some(m) = f.into_iter().next() {
        return Err(m);
    }
    Ok(compared.load(std::sync::atomic::Ordering::Relaxed))
}

fn record_obs(obs: &Obs, report: &mut Report) {
    report.count_n("twin_comparisons", obs.comparisons);
    report.count_n("cache_calls", obs.cache_calls);
    report.count_n("comparisons_with_nonempty_captures", obs.captures_nonempty);
    for (c, t) in &obs.cache_states {
        let label = if *t == 0 {
            "no_regex"
        } else if *c == 0 {
            "uncached"
        } else if c == t {
            "fully_cached"
        } else {
            "partially_cached"
        };
        report.count(&format!("cache_state_{label}"));
        report.state("cached_over_total_regexes", format!("{c}/{t}"));
    }
}

pub fn run(ctx: &Ctx, _args: &Args) -> i32 {
    let started = Instant::now();
    let jobs = ctx.jobs;
    let n_routers: u64 = ctx.tier.pick(1_000, 30_000);
    let n_sets: usize = ctx.tier.pick(48, 400);
    let stress_worlds: usize = ctx.tier.pick(16, 128);
    let cat = c08::catalogue();

    let fixtures = crate::fixtures::load();
    let fixture_requests: Vec<ReqSpec> = fixtures.iter().flat_map(|f| f.requests.iter().cloned()).collect();

    let mut report = run_sharded(jobs, |shard, report| {
        let mut rng = Rng::stream(ctx.seed, shard as u64);
        // (1) twin routers over update histories with extra cache calls (a quarter of them over the rule sets
        // of the repository's fixtures)
        for _ in 0..(n_routers / jobs as u64) {
            let mut case = if !fixtures.is_empty() && rng.chance(1, 4) {
                let k = rng.below(fixtures.len());
                report.count("fixture_histories");
                c02::fixture_case(&mut rng, 25, &fixtures[k], &fixture_requests)
            } else {
                c02::random_case(&mut rng, 25)
            };
            // sprinkle more cache calls with all kinds of limits
            let extra = rng.range(1, 5);
            for _ in 0..extra {
                let at = rng.below(case.ops.len() + 1);
                let limit = *rng.pick(&[None, Some(0u64), Some(1), Some(2), Some(3), Some(5), Some(8), Some(1_000_000)]);
                case.ops.insert(at, Op::Cache(limit));
            }
            case.probes.truncate(10);
            report.eval();
            let mut obs = Obs::default();
            match guarded(|| check_router(&case, &mut obs)) {
                Err(panic) => report.library_panic(&panic),
                Ok(Err(m)) => report.violation("cache-not-transparent", m, serde_json::to_value(Case::Router(case.clone())).unwrap()),
                Ok(Ok(())) => {
                    if obs.cache_states.iter().any(|(c, _)| *c > 0) {
                        report.nontrivial(fnv_str(&serde_json::to_string(&case).unwrap()));
                    }
                    if report.want_sample() && obs.cache_states.len() >= 3 && case.ops.len() <= 12 {
                        report.sample(json!({"ops": case.ops.iter().map(|o| format!("{o:?}").chars().take(60).collect::<String>()).collect::<Vec<_>>(), "cache_states_seen": obs.cache_states}));
                    }
                }
            }
            record_obs(&obs, report);
        }
        // (2) trees: exhaustive (limit, level) and pairs of calls on small pattern sets
        for set_index in 0..n_sets {
            if set_index % jobs != shard {
                continue;
            }
            let mut set_rng = Rng::stream(ctx.seed, 7000 + set_index as u64);
            let k = set_rng.range(3, 6);
            let start = set_rng.below(cat.len());
            let stride = 1 + set_index % 2;
            let chosen: Vec<usize> = (0..k).map(|i| (start + i * stride) % cat.len()).collect();
            let parts: Vec<&Vec<c08::Part>> = chosen.iter().map(|i| &cat[*i]).collect();
            let mut patterns: Vec<String> = parts.iter().map(|p| c08::build(p)).collect();
            patterns.dedup();
            let haystacks = c08::haystacks_for(&parts, &mut set_rng, 10);
            let ignore_case = set_index % 3 == 0;
            // measure nodes / depth of the tree
            let mut probe = RegexTreeMap::<u32>::new(ignore_case);
            for (i, p) in patterns.iter().enumerate() {
                probe.insert(p, &format!("id{i}"), i as u32);
            }
            let st = c08::stats_of(&probe.verif_snapshot());
            let mut singles: Vec<(u64, Option<u64>)> = Vec::new();
            for limit in 0..=(st.total as u64 + 1) {
                for level in 0..=(st.depth as u64 + 1) {
                    singles.push((limit, Some(level)));
                }
                singles.push((limit, None));
            }
            let mut all_calls: Vec<Vec<(u64, Option<u64>)>> = singles.iter().map(|c| vec![*c]).collect();
            for a in &singles {
                for b in &singles {
                    if (a.0 + b.0) % 3 == 0 {
                        all_calls.push(vec![*a, *b]);
                    }
                }
            }
            let plain_answers = plain_tree_answers(ignore_case, &patterns, &haystacks);
            for calls in all_calls {
                report.eval();
                let mut obs = Obs::default();
                match guarded(|| check_tree_against(ignore_case, &patterns, &haystacks, &plain_answers, &calls, &mut obs)) {
                    Err(panic) => report.library_panic(&panic),
                    Ok(Err(m)) => report.violation(
                        "tree-cache-not-transparent",
                        m,
                        serde_json::to_value(Case::Tree {
                            ignore_case,
                            patterns: patterns.clone(),
                            haystacks: haystacks.clone(),
                            calls: calls.clone(),
                        })
                        .unwrap(),
                    ),
                    Ok(Ok(())) => {
                        if obs.cache_states.iter().any(|(c, t)| *c > 0 && c < t) {
                            report.nontrivial_enumerated();
                        }
                    }
                }
                record_obs(&obs, report);
            }
            report.count("tree_pattern_sets");
        }
        // (2b) raw pattern sets beyond the rule shape: transparency only
        for (set_index, set) in RAW_SETS.iter().enumerate() {
            for ignore_case in [false, true] {
                if (set_index * 2 + ignore_case as usize) % jobs != shard {
                    continue;
                }
                let patterns: Vec<String> = set.iter().map(|p| p.to_string()).collect();
                let haystacks: Vec<String> = RAW_HAYSTACKS.iter().map(|h| h.to_string()).collect();
                let mut probe = RegexTreeMap::<u32>::new(ignore_case);
                for (i, p) in patterns.iter().enumerate() {
                    probe.insert(p, &format!("id{i}"), i as u32);
                }
                let st = c08::stats_of(&probe.verif_snapshot());
                let mut singles: Vec<(u64, Option<u64>)> = Vec::new();
                for limit in 0..=(st.total as u64 + 1) {
                    for level in 0..=(st.depth as u64 + 1) {
                        singles.push((limit, Some(level)));
                    }
                    singles.push((limit, None));
                }
                let mut all_calls: Vec<Vec<(u64, Option<u64>)>> = singles.iter().map(|c| vec![*c]).collect();
                for a in &singles {
                    for b in &singles {
                        all_calls.push(vec![*a, *b]);
                    }
                }
                for calls in all_calls {
                    report.eval();
                    let mut obs = Obs::default();
                    match guarded(|| check_raw_tree(ignore_case, &patterns, &haystacks, &calls, &mut obs)) {
                        Err(panic) => report.library_panic(&panic),
                        Ok(Err(m)) => report.violation(
                            "tree-cache-not-transparent",
                            m,
                            serde_json::to_value(Case::RawTree {
                                ignore_case,
                                patterns: patterns.clone(),
                                haystacks: haystacks.clone(),
                                calls: calls.clone(),
                            })
                            .unwrap(),
                        ),
                        Ok(Ok(())) => {
                            if obs.cache_states.iter().any(|(c, t)| *c > 0 && c < t) {
                                report.nontrivial_enumerated();
                            }
                        }
                    }
                    record_obs(&obs, report);
                }
                report.count("raw_tree_pattern_sets");
            }
        }
        // (2c) a legal but *heavy* marker expression (compiled program of a few MiB: far above what ordinary
        // markers need, still below the regex crate's default limit): the lazy path and the warmed-up path must
        // both be able to build it. Few calls only: every uncached lookup recompiles the expression.
        if shard == 0 {
            let heavy = "(?:[\\p{L}\\p{N}]{1,48})";
            let patterns: Vec<String> = vec![format!("/h/{heavy}/x"), format!("/h/{heavy}/y"), "/h/plain".to_string()];
            let haystacks: Vec<String> = ["/h/abc123/x", "/h/\u{e9}t\u{e9}/y", "/h/plain", "/h/a-b/x"].iter().map(|h| h.to_string()).collect();
            for calls in [vec![(1000u64, None)], vec![(1, Some(0)), (1000, None)], vec![(1000, Some(1))], vec![(2, None), (2, None)]] {
                report.eval();
                let mut obs = Obs::default();
                match guarded(|| check_raw_tree(false, &patterns, &haystacks, &calls, &mut obs)) {
                    Err(panic) => report.library_panic(&panic),
                    Ok(Err(m)) => report.violation(
                        "tree-cache-not-transparent",
                        m,
                        serde_json::to_value(Case::RawTree {
                            ignore_case: false,
                            patterns: patterns.clone(),
                            haystacks: haystacks.clone(),
                            calls: calls.clone(),
                        })
                        .unwrap(),
                    ),
                    Ok(Ok(())) => report.count("heavy_expression_call_sequences"),
                }
                record_obs(&obs, report);
            }
        }
        // (3) thread stress on the shared RwLock<LazyRegex>
        for w in 0..stress_worlds {
            if w % jobs != shard {
                continue;
            }
            let mut wrng = Rng::stream(ctx.seed, 9100 + w as u64);
            let world = super::c01::random_world(&mut wrng, 20);
            let model = Model::new(&world.cfg, &world.rules);
            let probes: Vec<ReqSpec> = probes_for(&model, &mut wrng, 1, 4).into_iter().map(|(q, _)| q).take(24).collect();
            report.eval();
            match guarded(|| stress(&world, &probes, 40)) {
                Err(panic) => report.library_panic(&panic),
                Ok(Err(m)) => report.violation("shared-cache-race", m, json!({"world": world, "probes": probes})),
                Ok(Ok(n)) => report.count_n("stress_comparisons_under_concurrent_caching", n),
            }
        }
    });

    report.exhaustive.insert(
        "per small pattern set: every (limit in 0..=regexes+1, level in 0..=depth+1 and None) single cache call and one third of all ordered pairs of calls".to_string(),
        json!({"complete": true, "sets": report.counters.get("tree_pattern_sets").copied().unwrap_or(0)}),
    );
    report.notes.insert("exhaustive".into(), json!(false));
    for state in ["uncached", "partially_cached", "fully_cached"] {
        if !report.counters.contains_key(&format!("cache_state_{state}")) {
            report.inconclusive(format!("cache state '{state}' was never observed"));
        }
    }

    finish(
        ctx,
        report,
        "twin routers driven by the C02 history generator (+ extra cache(n) calls, n in {None,0,1,2,3,5,8,10^6}) compared after every op on match ids, Route::capture of every matched route and the canonicalised serialisation of trace_request; trees: exhaustive (limit, level) and call pairs on small sets of the C08 catalogue vs uncached twin and linear scan, plus 21 raw pattern sets beyond the rule shape (top-level classes, counted repetitions, alternations, uncompilable patterns; transparency only); thread stress: 4 matching threads on an Arc<Router> while clones sharing the Arc<Route>s are cached. non-trivial = history / call sequence during which some but possibly not all regexes were compiled (cache state read through the hooks)",
        &["the twin is the same library code without cache calls (metamorphic relation)", "regex crate for the linear scan of the tree part"],
        started,
        100,
    )
    .exit_code
}

pub fn replay(_ctx: &Ctx, case: &Value) -> i32 {
    let case: Case = match serde_json::from_value(case.clone()) {
        Ok(c) => c,
        Err(e) => {
            eprintln!("bad case: {e}");
            return 2;
        }
    };
    let failures = match &case {
        Case::Router(c) => match guarded(|| check_router(c, &mut Obs::default())) {
            Err(p) => vec![format!("panic: {p}")],
            Ok(Err(m)) => vec![m],
            Ok(Ok(())) => vec![],
        },
        Case::Tree {
            ignore_case,
            patterns,
            haystacks,
            calls,
        } => match guarded(|| check_tree(*ignore_case, patterns, haystacks, calls, &mut Obs::default())) {
            Err(p) => vec![format!("panic: {p}")],
            Ok(Err(m)) => vec![m],
            Ok(Ok(())) => vec![],
        },
        Case::RawTree {
            ignore_case,
            patterns,
            haystacks,
            calls,
        } => match guarded(|| check_raw_tree(*ignore_case, patterns, haystacks, calls, &mut Obs::default())) {
            Err(p) => vec![format!("panic: {p}")],
            Ok(Err(m)) => vec![m],
            Ok(Ok(())) => vec![],
        },
    };
    super::replay_verdict("C12", failures)
}
