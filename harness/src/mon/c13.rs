//! C13 — header filters implement add / remove / replace / override / default exactly.
//!
//! Reference fold written from the statement, compared with `FilterHeaderAction::filter` and with
//! `Action::filter_headers(h, code, false, None)` (action built by deserialising JSON).

use super::Args;
use crate::prng::{fnv_str, Rng};
use crate::report::{finish, Ctx, Report};
use crate::util::{guarded, run_sharded};
use redirectionio::action::Action;
use redirectionio::api::HeaderFilter;
use redirectionio::filter::FilterHeaderAction;
use redirectionio::http::Header;
use serde::{Deserialize, Serialize};
use serde_json::{json, Value};
use std::time::Instant;

#[derive(Clone, Debug, Serialize, Deserialize, PartialEq, Eq)]
pub struct Case {
    pub headers: Vec<(String, String)>,
    /// (action, header, value)
    pub filters: Vec<(String, String, String)>,
}

pub const ACTIONS: &[&str] = &["add", "remove", "replace", "override", "default", "bogus"];

/// the reference model (names compared after Unicode lower-casing)
pub fn reference(headers: &[(String, String)], filters: &[(String, String, String)]) -> Vec<(String, String)> {
    reference_with(headers, filters, |s| s.to_lowercase())
}

/// the reference model under a given notion of "same name ignoring case". The statement says case-insensitive;
/// for names outside ASCII that leaves two readings (Unicode or ASCII-only folding). Either is accepted — but it
/// must be ONE reading for all five operations of a sequence.
pub fn reference_with(headers: &[(String, String)], filters: &[(String, String, String)], fold: fn(&str) -> String) -> Vec<(String, String)> {
    let mut list: Vec<(String, String)> = headers.to_vec();
    for (action, name, value) in filters {
        let same = |n: &str| fold(n) == fold(name);
        match action.as_str() {
            "add" => list.push((name.clone(), value.clone())),
            "remove" => list.retain(|(n, _)| !same(n)),
            "replace" => {
                for h in list.iter_mut() {
                    if same(&h.0) {
                        *h = (name.clone(), value.clone());
                    }
                }
            }
            "override" => {
                let mut found = false;
                for h in list.iter_mut() {
                    if same(&h.0) {
                        *h = (name.clone(), value.clone());
                        found = true;
                    }
                }
                if !found {
                    list.push((name.clone(), value.clone()));
                }
            }
            "default" => {
                if !list.iter().any(|(n, _)| same(n)) {
                    list.push((name.clone(), value.clone()));
                }
            }
            _ => {}
        }
    }
    list
}

fn to_headers(list: &[(String, String)]) -> Vec<Header> {
    list.iter()
        .map(|(n, v)| Header {
            name: n.clone(),
            value: v.clone(),
        })
        .collect()
}

fn from_headers(list: Vec<Header>) -> Vec<(String, String)> {
    list.into_iter().map(|h| (h.name, h.value)).collect()
}

pub struct Prepared {
    direct: Option<FilterHeaderAction>,
    action: Action,
}

pub fn prepare(filters: &[(String, String, String)]) -> Prepared {
    let api: Vec<HeaderFilter> = filters
        .iter()
        .map(|(a, h, v)| HeaderFilter {
            action: a.clone(),
            header: h.clone(),
            value: v.clone(),
            id: None,
            target_hash: None,
        })
        .collect();
    let action_json = json!({
        "status_code_update": null,
        "header_filters": filters.iter().map(|(a, h, v)| json!({
            "filter": {"action": a, "header": h, "value": v, "id": null, "target_hash": null},
            "on_response_status_codes": [],
            "exclude_response_status_codes": false,
            "rule_id": null,
        })).collect::<Vec<_>>(),
        "body_filters": [],
        "rule_ids": [],
        "rule_traces": [],
        "rules_applied": [],
        "log_override": null,
    });
    let action: Action = serde_json::from_value(action_json).expect("action json");
    Prepared {
        direct: FilterHeaderAction::new(api),
        action,
    }
}

pub fn check(case: &Case, prepared: &mut Prepared) -> Result<bool, String> {
    let mut expected = reference(&case.headers, &case.filters);
    let all_ascii = case.headers.iter().all(|(n, _)| n.is_ascii()) && case.filters.iter().all(|(_, n, _)| n.is_ascii());
    if !all_ascii {
        // names outside ASCII: the other consistent reading is accepted as well
        let ascii_reading = reference_with(&case.headers, &case.filters, |s| s.to_ascii_lowercase());
        if ascii_reading != expected {
            let got = match &prepared.direct {
                None => case.headers.clone(),
                Some(f) => from_headers(f.filter(to_headers(&case.headers), None)),
            };
            if got == ascii_reading {
                expected = ascii_reading;
            }
        }
    }
    let direct = match &prepared.direct {
        None => case.headers.clone(),
        Some(f) => from_headers(f.filter(to_headers(&case.headers), None)),
    };
    if direct != expected {
        return Err(format!(
            "FilterHeaderAction::filter: got {:?}, reference {:?}",
            direct, expected
        ));
    }
    for code in [0u16, 200, 404] {
        let via_action = from_headers(prepared.action.filter_headers(to_headers(&case.headers), code, false, None));
        if via_action != expected {
            return Err(format!(
                "Action::filter_headers(code={code}): got {:?}, reference {:?}",
                via_action, expected
            ));
        }
    }
    Ok(expected != case.headers)
}


// ---------------------------------------------------------------------------------------------
// several rules: "applying, in rule order, the five operations" — the action of k matched rules (distinct ranks,
// unconditional filters, no redirect) must filter like the concatenation of the rules' filter lists in
// application order (lowest priority first)

#[derive(Clone, Debug, Serialize, Deserialize)]
pub struct MultiCase {
    pub headers: Vec<(String, String)>,
    /// per rule (rank = position, i.e. already in application order reversed: see `check_multi`): its filters
    pub rules: Vec<Vec<(String, String, String)>>,
}

pub fn check_multi(case: &MultiCase) -> Result<bool, String> {
    use crate::world::RuleSpec;
    let mut specs: Vec<RuleSpec> = Vec::new();
    for (i, filters) in case.rules.iter().enumerate() {
        let mut r = RuleSpec::simple(&format!("m{i}"), "/a");
        r.rank = (i as u16) * 3 + 1;
        r.effects.status_code = None;
        r.effects.target = None;
        r.effects.header_filters = filters.clone();
        specs.push(r);
    }
    let order: Vec<String> = super::c05::contributing(&specs, None, &mut super::c05::FoldTrace::default()).iter().map(|r| r.id.clone()).collect();
    let mut concatenated: Vec<(String, String, String)> = Vec::new();
    for id in &order {
        let idx: usize = id[1..].parse().unwrap_or(0);
        concatenated.extend(case.rules[idx].iter().cloned());
    }
    let expected = reference(&case.headers, &concatenated);
    // the matched list is handed over in a scrambled order: the action sorts it
    let scrambled: Vec<usize> = (0..specs.len()).rev().collect();
    let mut action = super::c05::build_action(&specs, None, Some(&scrambled));
    for code in [0u16, 200, 404] {
        let got = from_headers(action.filter_headers(to_headers(&case.headers), code, false, None));
        if got != expected {
            return Err(format!(
                "action of {} rules (filters in application order {:?}), Action::filter_headers(code={code}): got {:?}, reference {:?}",
                case.rules.len(),
                concatenated,
                got,
                expected
            ));
        }
    }
    Ok(expected != case.headers)
}

fn record(case: &Case, prepared: &mut Prepared, enumerated: bool, report: &mut Report) {
    report.eval();
    match guarded(|| check(case, prepared)) {
        Err(p) => report.violation("panic", format!("panic in header filtering: {p}"), serde_json::to_value(case).unwrap()),
        Ok(Err(m)) => report.violation("mismatch", m, serde_json::to_value(case).unwrap()),
        Ok(Ok(changed)) => {
            if changed {
                if enumerated {
                    report.nontrivial_enumerated();
                } else {
                    report.nontrivial(fnv_str(&serde_json::to_string(case).unwrap()));
                }
                if report.want_sample() && case.filters.len() >= 2 && case.headers.len() >= 2 {
                    report.sample(json!({
                        "headers": case.headers, "filters": case.filters,
                        "result": reference(&case.headers, &case.filters),
                    }));
                }
            }
            for (a, _, _) in &case.filters {
                report.count(&format!("op_{a}"));
            }
        }
    }
}

fn all_header_lists(max_len: usize) -> Vec<Vec<(String, String)>> {
    let names = ["A", "a", "B"];
    let values = ["", "1", "2"];
    let mut pairs = Vec::new();
    for n in names {
        for v in values {
            pairs.push((n.to_string(), v.to_string()));
        }
    }
    let mut out: Vec<Vec<(String, String)>> = vec![vec![]];
    let mut frontier: Vec<Vec<(String, String)>> = vec![vec![]];
    for _ in 0..max_len {
        let mut next = Vec::new();
        for l in &frontier {
            for p in &pairs {
                let mut n = l.clone();
                n.push(p.clone());
                next.push(n);
            }
        }
        out.extend(next.iter().cloned());
        frontier = next;
    }
    out
}

fn all_filters(values: &[&str]) -> Vec<(String, String, String)> {
    let mut out = Vec::new();
    for a in ACTIONS {
        for n in ["A", "a", "b", "C"] {
            for v in values {
                out.push((a.to_string(), n.to_string(), v.to_string()));
            }
        }
    }
    out
}

fn sequences(filters: &[(String, String, String)], k: usize) -> Vec<Vec<(String, String, String)>> {
    let mut out: Vec<Vec<(String, String, String)>> = vec![vec![]];
    for _ in 0..k {
        let mut next = Vec::new();
        for s in &out {
            for f in filters {
                let mut n = s.clone();
                n.push(f.clone());
                next.push(n);
            }
        }
        out = next;
    }
    out
}

pub fn run(ctx: &Ctx, _args: &Args) -> i32 {
    let started = Instant::now();
    let jobs = ctx.jobs;
    let lists3 = all_header_lists(3);
    let lists2 = all_header_lists(2);
    let filters_full = all_filters(&["x", ""]);
    let filters_reduced = all_filters(&["x"]);
    let thorough = ctx.tier.pick(false, true);
    let random_cases: u64 = ctx.tier.pick(200_000, 3_000_000);

    // enumerated spaces: (name, sequences, header lists)
    let mut spaces: Vec<(String, Vec<Vec<(String, String, String)>>, &Vec<Vec<(String, String)>>)> = Vec::new();
    for k in 0..=2 {
        spaces.push((format!("k={k}, 48 filters x 820 header lists (len<=3)"), sequences(&filters_full, k), &lists3));
    }
    if thorough {
        spaces.push(("k=3, 48 filters x 91 header lists (len<=2)".to_string(), sequences(&filters_full, 3), &lists2));
        spaces.push(("k=3, 24 filters (value x) x 820 header lists (len<=3)".to_string(), sequences(&filters_reduced, 3), &lists3));
    } else {
        spaces.push(("k=3, 24 filters (value x) x 91 header lists (len<=2)".to_string(), sequences(&filters_reduced, 3), &lists2));
    }

    let mut report = run_sharded(jobs, |shard, report| {
        for (_, seqs, lists) in &spaces {
            for (i, seq) in seqs.iter().enumerate() {
                if i % jobs != shard {
                    continue;
                }
                let mut prepared = prepare(seq);
                for headers in lists.iter() {
                    let case = Case {
                        headers: headers.clone(),
                        filters: seq.clone(),
                    };
                    record(&case, &mut prepared, true, report);
                }
            }
        }

        // random longer cases
        let mut rng = Rng::stream(ctx.seed, shard as u64);
        // includes names that are proper prefixes of one another (a comparison that is not an equality would
        // confuse them) and the empty name
        let names = [
            "A", "a", "B", "b", "C", "AB", "Ab", "Content-Type", "content-type", "CONTENT-TYPE", "X-Foo", "x-foo", "X-Foo-Bar", "Set-Cookie",
            "set-cookie2", "Accept", "ACCEPT-RANGES", "", "x-cl\u{e9}", "X-CL\u{c9}", "X-GR\u{d6}\u{df}E", "x-gr\u{f6}\u{df}e",
        ];
        let values = ["", "1", "2", "x", "text/html", "a=b; c", "\u{e9}"];
        for _ in 0..(random_cases / jobs as u64) {
            let hn = rng.range(0, 8);
            let fnn = rng.range(1, 8);
            let headers = (0..hn).map(|_| (rng.pick(&names).to_string(), rng.pick(&values).to_string())).collect();
            let filters: Vec<(String, String, String)> = (0..fnn)
                .map(|_| (rng.pick(ACTIONS).to_string(), rng.pick(&names).to_string(), rng.pick(&values).to_string()))
                .collect();
            let case = Case { headers, filters };
            let mut prepared = prepare(&case.filters);
            record(&case, &mut prepared, false, report);
        }
    });

    // several rules merged into one action
    let multi = run_sharded(jobs, |shard, report| {
        let mut rng = Rng::stream(ctx.seed, 900 + shard as u64);
        let names = ["A", "a", "B", "Cache-Control", "cache-control", "X-Foo"];
        let values = ["", "1", "2", "public, max-age=3600"];
        for _ in 0..(ctx.tier.pick(40_000u64, 600_000u64) / jobs as u64) {
            let hn = rng.range(0, 4);
            let headers: Vec<(String, String)> = (0..hn).map(|_| (rng.pick(&names).to_string(), rng.pick(&values).to_string())).collect();
            let k = rng.range(2, 4);
            let rules: Vec<Vec<(String, String, String)>> = (0..k)
                .map(|_| (0..rng.range(1, 2)).map(|_| (rng.pick(&ACTIONS[..5]).to_string(), rng.pick(&names).to_string(), rng.pick(&values).to_string())).collect())
                .collect();
            let case = MultiCase { headers, rules };
            report.eval();
            match guarded(|| check_multi(&case)) {
                Err(panic) => report.library_panic(&panic),
                Ok(Err(m)) => report.violation("mismatch", m, json!({"multi": case})),
                Ok(Ok(changed)) => {
                    report.count("actions_merged_from_several_rules");
                    if changed {
                        report.nontrivial(fnv_str(&serde_json::to_string(&case).unwrap()));
                    }
                }
            }
        }
    });
    report.merge(multi);

    for (name, seqs, lists) in &spaces {
        report
            .exhaustive
            .insert(name.clone(), json!({"complete": true, "size": seqs.len() as u64 * lists.len() as u64}));
    }
    report.notes.insert("exhaustive".into(), json!(false));
    report.notes.insert(
        "exhaustive_note".into(),
        json!("the enumerated sub-spaces under exhaustive_subspaces are complete; random longer cases are sampled"),
    );

    finish(
        ctx,
        report,
        "enumerated: all header lists (len<=3, names {A,a,B}, values {'',1,2}) x all filter sequences of length k over {add,remove,replace,override,default,bogus} x {A,a,b,C} x {x,''}; random longer lists/sequences with mixed-case real header names, prefix-related names (Accept / Accept-Ranges, A / AB), the empty name and names with non-ASCII cased letters (either consistent reading of 'case-insensitive' is accepted there); each evaluation runs FilterHeaderAction::filter and Action::filter_headers at 3 response codes against the reference fold. non-trivial = the filter sequence changes the header list (enumerated cases distinct by construction; random ones de-duplicated by hash)",
        &["rustc/std", "serde_json (to build the Action)", "str::to_lowercase as the meaning of case-insensitive"],
        started,
        1000,
    )
    .exit_code
}

pub fn replay(_ctx: &Ctx, case: &Value) -> i32 {
    if let Some(m) = case.get("multi") {
        let failures = match serde_json::from_value::<MultiCase>(m.clone()) {
            Err(e) => {
                eprintln!("bad case: {e}");
                return 2;
            }
            Ok(mc) => match guarded(|| check_multi(&mc)) {
                Err(p) => vec![format!("panic: {p}")],
                Ok(Err(m)) => vec![m],
                Ok(Ok(_)) => vec![],
            },
        };
        return super::replay_verdict("C13", failures);
    }
    let case: Case = match serde_json::from_value(case.clone()) {
        Ok(c) => c,
        Err(e) => {
            eprintln!("bad case: {e}");
            return 2;
        }
    };
    let failures = match guarded(|| {
        let mut prepared = prepare(&case.filters);
        check(&case, &mut prepared)
    }) {
        Err(p) => vec![format!("panic: {p}")],
        Ok(Err(m)) => vec![m],
        Ok(Ok(_)) => vec![],
    };
    super::replay_verdict("C13", failures)
}
