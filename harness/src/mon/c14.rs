//! C14 — filtering a compressed body equals filtering its decompressed form.
//!
//! Differential monitor: dec(concat(filter(chunk_i of enc(b))) + end()) == filter_plain(b), where dec
//! is an independent decoder instance that must reach end-of-stream cleanly, for gzip / deflate / br
//! produced with several encoder settings and cut at arbitrary offsets of the *compressed* stream.
//! Unsupported encodings must disable filtering and leave the body untouched.

use super::Args;
use crate::bodyfx::*;
use crate::dom;
use crate::prng::{fnv, mix, Rng};
use crate::report::{finish, Ctx, Report};
use crate::util::{guarded, hex, run_sharded, show, unhex};
use serde::{Deserialize, Serialize};
use serde_json::{json, Value};
use std::io::{Read, Write};
use std::time::Instant;

#[derive(Clone, Debug, Serialize, Deserialize)]
pub struct Case {
    pub body_hex: String,
    /// gzip | deflate | br | other (unsupported)
    pub encoding: String,
    /// spelling of the Content-Encoding header value
    pub header_value: String,
    pub level: u32,
    pub lgwin: u32,
    pub filters: Vec<Value>,
    pub cuts: Vec<usize>,
    /// gzip only: offsets of the plain body at which the producer starts a new gzip member (RFC 1952: a gzip
    /// stream is a series of members); an offset equal to the body length yields an empty last member
    #[serde(default)]
    pub members: Vec<usize>,
    /// gzip only: optional header fields written by the producer (1 = file name, 2 = comment, 4 = extra field)
    #[serde(default)]
    pub gz_header: u8,
}

/// the compressed stream of a case (gzip: possibly several members and optional header fields)
pub fn encode_case(body: &[u8], case: &Case) -> Vec<u8> {
    if case.encoding == "deflate" && case.gz_header != 0 {
        // zlib header announcing a window smaller than 32 KiB (as deflateInit2 with windowBits < 15 writes it): legal
        // whenever the body is not longer than the announced window (no back-reference can reach further)
        let mut z = encode(body, "deflate", case.level, 0);
        let cinfo = (case.gz_header as u32 - 1).min(6);
        if z.len() >= 2 && body.len() <= (1usize << (cinfo + 8)) {
            let cmf = ((cinfo << 4) | 8) as u8;
            let mut flg = z[1] & 0b1100_0000; // keep FLEVEL, no preset dictionary
            let rem = ((cmf as u32) * 256 + flg as u32) % 31;
            if rem != 0 {
                flg += (31 - rem) as u8;
            }
            z[0] = cmf;
            z[1] = flg;
        }
        return z;
    }
    if case.encoding != "gzip" || (case.members.is_empty() && case.gz_header == 0) {
        return encode(body, &case.encoding, case.level, case.lgwin);
    }
    let mut bounds: Vec<usize> = case.members.iter().map(|m| (*m).min(body.len())).collect();
    bounds.sort_unstable();
    bounds.insert(0, 0);
    bounds.push(body.len());
    let mut out = Vec::new();
    for (k, w) in bounds.windows(2).enumerate() {
        if k > 0 && k + 1 == bounds.len() - 1 && w[0] == w[1] && !case.members.contains(&body.len()) {
            continue;
        }
        let mut b = flate2::GzBuilder::new();
        if case.gz_header & 1 != 0 {
            b = b.filename("index.html");
        }
        if case.gz_header & 2 != 0 {
            b = b.comment("produced by the monitor");
        }
        if case.gz_header & 4 != 0 {
            b = b.extra(vec![b'A', b'p', 4, 0, 1, 2, 3, 4]);
        }
        let mut e = b.write(Vec::new(), flate2::Compression::new(case.level));
        e.write_all(&body[w[0]..w[1]]).unwrap();
        out.extend(e.finish().unwrap());
    }
    out
}

pub fn encode(body: &[u8], encoding: &str, level: u32, lgwin: u32) -> Vec<u8> {
    match encoding {
        "gzip" => {
            let mut e = flate2::write::GzEncoder::new(Vec::new(), flate2::Compression::new(level));
            e.write_all(body).unwrap();
            e.finish().unwrap()
        }
        "deflate" => {
            let mut e = flate2::write::ZlibEncoder::new(Vec::new(), flate2::Compression::new(level));
            e.write_all(body).unwrap();
            e.finish().unwrap()
        }
        "br" => {
            let mut out = Vec::new();
            {
                let mut w = brotli::CompressorWriter::new(&mut out, 4096, level, lgwin);
                w.write_all(body).unwrap();
            }
            out
        }
        _ => body.to_vec(),
    }
}

/// independent decoder: must reach end-of-stream cleanly and consume the whole input
pub fn decode(data: &[u8], encoding: &str) -> Result<Vec<u8>, String> {
    let mut out = Vec::new();
    match encoding {
        "gzip" => {
            // a valid gzip stream is one or more members and nothing else (trailing garbage is an error here)
            if data.is_empty() {
                return Err("gzip stream invalid: empty output".to_string());
            }
            let mut d = flate2::bufread::MultiGzDecoder::new(data);
            d.read_to_end(&mut out).map_err(|e| format!("gzip stream invalid: {e}"))?;
            let rest = d.into_inner();
            if !rest.is_empty() {
                return Err(format!("{} trailing bytes after the gzip stream", rest.len()));
            }
        }
        "deflate" => {
            let mut d = flate2::bufread::ZlibDecoder::new(data);
            d.read_to_end(&mut out).map_err(|e| format!("zlib stream invalid: {e}"))?;
            if d.total_in() as usize != data.len() {
                return Err(format!("{} trailing bytes after the zlib stream", data.len() - d.total_in() as usize));
            }
        }
        "br" => {
            let mut d = brotli::Decompressor::new(data, 4096);
            d.read_to_end(&mut out).map_err(|e| format!("brotli stream invalid: {e}"))?;
        }
        _ => return Err("unknown encoding".to_string()),
    }
    Ok(out)
}

pub struct Stats {
    pub compressed_len: usize,
    pub interior_cut: bool,
    pub filter_active: bool,
}

pub fn check(case: &Case) -> Result<Stats, String> {
    let body = unhex(&case.body_hex);
    let supported = matches!(case.encoding.as_str(), "gzip" | "deflate" | "br");
    let compressed = encode_case(&body, case);
    let fc = FilterCase {
        filters: case.filters.clone(),
        headers: vec![
            ("Content-Type".to_string(), "text/html".to_string()),
            ("Content-Encoding".to_string(), case.header_value.clone()),
        ],
    };
    let run = run_chunks(&fc, &split_at(&compressed, &case.cuts));
    let interior_cut = case.cuts.iter().any(|c| *c > 0 && *c < compressed.len());

    if !supported {
        if !run.empty_chain {
            return Err(format!("a filter chain {:?} was created for the unsupported encoding {:?}", run.stages, case.header_value));
        }
        if run.out != compressed {
            return Err(format!("unsupported encoding {:?}: the body was modified", case.header_value));
        }
        return Ok(Stats {
            compressed_len: compressed.len(),
            interior_cut,
            filter_active: false,
        });
    }

    let plain_fc = FilterCase {
        filters: case.filters.clone(),
        headers: vec![("Content-Type".to_string(), "text/html".to_string())],
    };
    let plain = run_chunks(&plain_fc, &[&body]);
    if plain.empty_chain {
        // no filter applies: nothing is decoded, the compressed body passes through untouched
        if run.out != compressed {
            return Err("no filter applies but the compressed body was modified".to_string());
        }
        return Ok(Stats {
            compressed_len: compressed.len(),
            interior_cut,
            filter_active: false,
        });
    }
    if run.stages.first() != Some(&"decode") || run.stages.last() != Some(&"encode") {
        return Err(format!("chain for {:?} is {:?}: expected decode ... encode", case.header_value, run.stages));
    }
    if let Some(at) = run.error_at {
        return Err(format!("the chain entered its error state at call #{at} on a valid {} stream (cuts {:?})", case.encoding, case.cuts));
    }
    let decoded = decode(&run.out, &case.encoding).map_err(|e| format!("output is not a complete valid {} stream: {e} (cuts {:?}, {} output bytes)", case.encoding, case.cuts, run.out.len()))?;
    if decoded != plain.out {
        let common = decoded.iter().zip(plain.out.iter()).take_while(|(a, b)| a == b).count();
        return Err(format!(
            "decoded output ({} bytes) differs from the filtered plain body ({} bytes) at byte {common}: ...'{}' vs ...'{}' (cuts {:?})",
            decoded.len(),
            plain.out.len(),
            show(&decoded[common.saturating_sub(20)..(common + 40).min(decoded.len())]),
            show(&plain.out[common.saturating_sub(20)..(common + 40).min(plain.out.len())]),
            case.cuts
        ));
    }
    Ok(Stats {
        compressed_len: compressed.len(),
        interior_cut,
        filter_active: true,
    })
}

// ---------------------------------------------------------------------------------------------

fn filter_lists() -> Vec<Vec<Value>> {
    vec![
        vec![html_filter("prepend_child", &["html", "body"], None, "<p>\u{e000}1\u{e001}</p>")],
        vec![html_filter("append_child", &["html", "body"], Some("span.nomatch"), "<i>\u{e000}1\u{e001}</i>")],
        vec![html_filter("append_child", &["html", "head"], None, "<meta name=x>"), text_filter("append_text", "<!-- end \u{e000}2\u{e001} -->")],
        vec![text_filter("prepend_text", "\u{e000}1\u{e001}")],
        vec![html_filter("replace", &["html", "head", "title"], None, "<title>new</title>")],
        vec![text_filter("replace_text", "replaced body")],
        // the filters of two rules merged on one response: an HTML stage in front of a stage that replaces the body
        vec![html_filter("append_child", &["html", "body"], None, "<i>\u{e000}1\u{e001}</i>"), text_filter("replace_text", "replaced body")],
        vec![html_filter("unknown", &["html"], None, "x")],
    ]
}

/// documents immune to the C03 known classes: ASCII-safe structure, no markup-looking text inside
/// comments / raw-text elements
fn body(rng: &mut Rng, size_class: usize) -> Vec<u8> {
    match size_class {
        0 => Vec::new(),
        1 => dom::random_doc(rng, true).source().into_bytes(),
        2 => {
            // a few KB, compressible
            let doc = dom::random_doc(rng, true).source();
            let row = "<div class=\"row\"><span>cell</span><a href=\"/x\">link</a> text text text</div>\n";
            let n = rng.range(20, 120);
            doc.replace("</body>", &format!("{}</body>", row.repeat(n))).replace("</BODY>", &format!("{}</BODY>", row.repeat(n))).into_bytes()
        }
        3 => {
            // incompressible-ish filler inside an attribute-free text node (hex noise), 5-40 KB
            let doc = dom::random_doc(rng, true).source();
            let n = rng.range(5_000, 40_000);
            let noise: String = (0..n).map(|_| char::from(b"0123456789abcdef \n"[rng.below(18)])).collect();
            doc.replace("</body>", &format!("<pre>{noise}</pre></body>")).replace("</BODY>", &format!("<pre>{noise}</pre></BODY>")).into_bytes()
        }
        5 => {
            // 80-350 KB of high-entropy text (inlined base64-like data): a single piece compresses to far more
            // than 32 KiB, and a single huge token is held back by the HTML stage and released at once
            let doc = dom::random_doc(rng, true).source();
            let n = rng.range(80_000, 350_000);
            let alphabet = b"ABCDEFGHIJKLMNOPQRSTUVWXYZabcdefghijklmnopqrstuvwxyz0123456789+/";
            let noise: String = (0..n).map(|_| char::from(alphabet[rng.below(64)])).collect();
            let piece = if rng.coin() { format!("<img src=\"data:image/png;base64,{noise}\">") } else { format!("<pre>{noise}</pre>") };
            doc.replace("</body>", &format!("{piece}</body>")).replace("</BODY>", &format!("{piece}</BODY>")).into_bytes()
        }
        _ => {
            // 60-250 KB, highly compressible: a single compressed chunk inflates far beyond 32 KiB
            let doc = dom::random_doc(rng, true).source();
            let row = "<li class=\"item\">item item item item item item item item item item</li>\n";
            let n = rng.range(900, 3_500);
            doc.replace("</body>", &format!("<ul>{}</ul></body>", row.repeat(n))).replace("</BODY>", &format!("<ul>{}</ul></BODY>", row.repeat(n))).into_bytes()
        }
    }
}

fn settings(rng: &mut Rng, encoding: &str) -> (u32, u32) {
    match encoding {
        "br" => (*rng.pick(&[0u32, 5, 11]), *rng.pick(&[10u32, 16, 22])),
        _ => (*rng.pick(&[0u32, 1, 6, 9]), 0),
    }
}

fn header_spelling(rng: &mut Rng, encoding: &str) -> String {
    match rng.below(6) {
        0 => encoding.to_uppercase(),
        1 => {
            let mut c = encoding.chars();
            match c.next() {
                Some(f) => f.to_uppercase().collect::<String>() + c.as_str(),
                None => String::new(),
            }
        }
        _ => encoding.to_string(),
    }
}

fn record(case: &Case, report: &mut Report) {
    report.eval();
    match guarded(|| check(case)) {
        Err(panic) => report.library_panic(&panic),
        Ok(Err(m)) => {
            let mut c = case.clone();
            if c.body_hex.len() > 4000 {
                // keep the witness file small: large bodies are regenerated from the stored prefix + length
                c.body_hex = case.body_hex.clone();
            }
            report.violation("compressed-filtering", m, serde_json::to_value(&c).unwrap());
        }
        Ok(Ok(stats)) => {
            report.count(&format!("cases_{}", case.encoding));
            if stats.filter_active && !case.members.is_empty() {
                report.count("gzip_streams_of_several_members");
            }
            if stats.filter_active && case.gz_header != 0 && case.encoding == "gzip" {
                report.count("gzip_streams_with_optional_header_fields");
            }
            if stats.filter_active && case.gz_header != 0 && case.encoding == "deflate" {
                report.count("zlib_streams_for_which_a_small_window_was_requested");
            }
            if stats.filter_active && stats.interior_cut {
                report.nontrivial(mix(fnv(case.body_hex.as_bytes()), fnv(format!("{}{}{}{:?}{:?}", case.encoding, case.level, case.lgwin, case.cuts, case.filters).as_bytes())));
            }
            if stats.compressed_len > 0 && unhex(&case.body_hex).len() > 32 * 1024 && case.cuts.len() <= 2 {
                report.count("large_bodies_delivered_in_few_chunks");
            }
            if report.want_sample() && stats.filter_active && case.cuts.len() >= 2 && case.body_hex.len() < 600 {
                report.sample(json!({"body": show(&unhex(&case.body_hex)), "encoding": case.encoding, "header": case.header_value, "level": case.level, "lgwin": case.lgwin, "cuts": case.cuts, "compressed_len": stats.compressed_len}));
            }
        }
    }
    let _ = hex;
}

pub fn run(ctx: &Ctx, _args: &Args) -> i32 {
    let started = Instant::now();
    let jobs = ctx.jobs;
    let lists = filter_lists();
    let n_bodies: u64 = ctx.tier.pick(640, 10_000);

    let mut report = run_sharded(jobs, |shard, report| {
        let mut rng = Rng::stream(ctx.seed, shard as u64);
        for i in 0..(n_bodies / jobs as u64) {
            let size_class = match i % 16 {
                0 => 0,
                1..=7 => 1,
                8..=10 => 2,
                11 | 12 => 3,
                13 => 5,
                _ => 4,
            };
            let b = body(&mut rng, size_class);
            let body_hex = hex(&b);
            for encoding in ["gzip", "deflate", "br"] {
                let (level, lgwin) = settings(&mut rng, encoding);
                if size_class >= 4 && encoding == "br" && level == 11 && rng.chance(if size_class == 5 { 9 } else { 2 }, if size_class == 5 { 10 } else { 3 }) {
                    continue; // quality 11 on hundreds of KB is slow; sampled less often
                }
                let filters = rng.pick(&lists).clone();
                // gzip producers that write several members (RFC 1952 section 2.2) and / or optional header fields
                let (members, gz_header) = if encoding == "gzip" && size_class <= 3 && rng.chance(1, 3) {
                    let k = rng.below(4);
                    let mut m: Vec<usize> = (0..k).map(|_| rng.below(b.len() + 1)).collect();
                    if rng.chance(1, 4) {
                        m.push(b.len()); // an empty last member
                    }
                    m.sort_unstable();
                    (m, rng.below(8) as u8)
                } else if encoding == "deflate" && size_class <= 2 && rng.chance(1, 3) {
                    // (for deflate the field selects the announced window: 1..=7 -> CINFO 0..=6, applied only when the
                    // body fits into that window)
                    (Vec::new(), rng.range(1, 7) as u8)
                } else {
                    (Vec::new(), 0u8)
                };
                let proto = Case {
                    body_hex: String::new(),
                    encoding: encoding.to_string(),
                    header_value: String::new(),
                    level,
                    lgwin,
                    filters: Vec::new(),
                    cuts: Vec::new(),
                    members: members.clone(),
                    gz_header,
                };
                let compressed_len = encode_case(&b, &proto).len();
                let mut partitions: Vec<Vec<usize>> = vec![vec![]];
                if compressed_len <= 400 {
                    // every single cut of a small stream
                    for c in 0..=compressed_len {
                        partitions.push(vec![c]);
                    }
                }
                for stride in [1usize, 2, 3, 7, 10, 64, 4096, 16384, 49152, 131072] {
                    if stride < compressed_len && (compressed_len / stride) <= 6000 {
                        partitions.push(stride_cuts(compressed_len, stride));
                    }
                }
                for _ in 0..3 {
                    partitions.push(random_cuts(compressed_len, &mut rng));
                }
                let header_value = header_spelling(&mut rng, encoding);
                for cuts in partitions {
                    let case = Case {
                        body_hex: body_hex.clone(),
                        encoding: encoding.to_string(),
                        header_value: header_value.clone(),
                        level,
                        lgwin,
                        filters: filters.clone(),
                        cuts,
                        members: members.clone(),
                        gz_header,
                    };
                    record(&case, report);
                }
            }
            // unsupported encodings
            if i % 4 == 0 {
                for other in ["zstd", "compress", "gzip, br", "identity", "x-gzip", "", "gzip ", "br;q=1"] {
                    let case = Case {
                        body_hex: body_hex.clone(),
                        encoding: "other".to_string(),
                        header_value: other.to_string(),
                        level: 0,
                        lgwin: 0,
                        filters: lists[0].clone(),
                        cuts: random_cuts(b.len(), &mut rng),
                        members: Vec::new(),
                        gz_header: 0,
                    };
                    record(&case, report);
                }
                report.count("unsupported_encoding_batches");
            }
        }
    });
    report.exhaustive.insert("every single cut of every compressed stream of <= 400 bytes".to_string(), json!({"complete": true}));
    report.notes.insert("exhaustive".into(), json!(false));

    finish(
        ctx,
        report,
        "bodies: empty, generated well-formed documents (no markup-looking text inside comments / raw-text elements, so the C03 known class cannot interfere), compressible bodies of a few KB, 5-40 KB of low-redundancy text, 60-250 KB highly compressible bodies; encoders: flate2 gzip/zlib levels 0,1,6,9, brotli quality 0,5,11 x lgwin 10,16,22; header value spelled lower/upper/capitalised; partitions of the compressed stream: whole, every single cut (streams <= 400 B), strides {1,2,3,7,10,64,4096}, random cuts with empty chunks; filter lists: HTML insert/replace, text prepend/append/replace, unknown action; unsupported encodings (zstd, compress, 'gzip, br', identity, x-gzip, '', 'gzip ', 'br;q=1'). non-trivial = distinct (body, encoder settings, partition, filters) with an active filter and an interior cut",
        &["flate2 / brotli crates as independent encoder and decoder instances", "the plain-body filter output of the same library is the reference (chunk invariance of plain bodies is C03's subject)"],
        started,
        200,
    )
    .exit_code
}

pub fn replay(_ctx: &Ctx, case: &Value) -> i32 {
    let case: Case = match serde_json::from_value(case.clone()) {
        Ok(c) => c,
        Err(e) => {
            eprintln!("bad case: {e}");
            return 2;
        }
    };
    let failures = match guarded(|| check(&case)) {
        Err(p) => vec![format!("panic: {p}")],
        Ok(Err(m)) => vec![m],
        Ok(Ok(_)) => vec![],
    };
    super::replay_verdict("C14", failures)
}
