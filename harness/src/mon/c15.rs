//! C15 — HTML filters edit the targeted element as specified on well-formed documents.
//!
//! DOM reference monitor: the generator builds a tree (so the answer is known without parsing), the
//! reference edit is applied to the tree and its serialisation is compared byte for byte with the
//! output of the real filter chain (single chunk).

use super::Args;
use crate::bodyfx::{html_filter, run_chunks, FilterCase};
use crate::dom::*;
use crate::prng::{fnv_str, Rng};
use crate::report::{finish, Ctx, Report};
use crate::util::{guarded, run_sharded};
use serde::{Deserialize, Serialize};
use serde_json::{json, Value};
use std::time::Instant;

#[derive(Clone, Debug, Serialize, Deserialize)]
pub struct Case {
    pub doc: Doc,
    pub filters: Vec<DomFilter>,
}

pub fn filter_case(filters: &[DomFilter]) -> FilterCase {
    FilterCase {
        filters: filters
            .iter()
            .map(|f| {
                let path: Vec<&str> = f.path.iter().map(|s| s.as_str()).collect();
                let sel = f.selector_text();
                html_filter(&f.action, &path, sel.as_deref(), &f.value.to_string())
            })
            .collect(),
        headers: vec![("Content-Type".to_string(), "text/html; charset=utf-8".to_string())],
    }
}

pub fn expected(case: &Case, trace: &mut EditTrace) -> String {
    let mut nodes = case.doc.nodes.clone();
    for f in &case.filters {
        reference_edit(&mut nodes, f, trace);
    }
    let mut s = String::new();
    for n in &nodes {
        n.serialize(&mut s);
    }
    s
}

pub fn check(case: &Case, trace: &mut EditTrace) -> Result<(), String> {
    let want = expected(case, trace);
    let source = case.doc.source();
    let run = run_chunks(&filter_case(&case.filters), &[source.as_bytes()]);
    let got = String::from_utf8_lossy(&run.out).to_string();
    if run.error_at.is_some() {
        return Err(format!("the filter chain entered its error state on a well-formed document: {source}"));
    }
    if got != want {
        // known class: selectors are evaluated on a fragment parse of the buffered element, which drops the
        // head / body elements themselves: a selector that only one of those can satisfy never matches
        let mut variant = EditTrace {
            structural_invisible: true,
            ..EditTrace::default()
        };
        if got == expected(case, &mut variant) {
            return Err(format!(
                "[C15-F19] selector satisfied only by a head/body element itself is treated as not matching; filters {:?}; document {}; output {}; reference {}",
                case.filters.iter().map(|f| format!("{} {:?} sel={:?}", f.action, f.path, f.selector_text())).collect::<Vec<_>>(),
                source,
                got,
                want
            ));
        }
        let common = got.bytes().zip(want.bytes()).take_while(|(a, b)| a == b).count();
        let from = (0..=common.saturating_sub(30)).rev().find(|i| got.is_char_boundary(*i)).unwrap_or(0);
        let tail = |s: &str| s[from.min(s.len())..].chars().take(160).collect::<String>();
        return Err(format!(
            "first difference at byte {common}: output ...{:?} reference ...{:?}\n  filters {:?}\n  document  {}\n  output    {}\n  reference {}",
            tail(&got),
            tail(&want),
            case.filters.iter().map(|f| format!("{} {:?} sel={:?}", f.action, f.path, f.selector_text())).collect::<Vec<_>>(),
            source,
            got,
            want
        ));
    }
    Ok(())
}

fn record(ctx: &Ctx, case: &Case, report: &mut Report) {
    report.eval();
    let mut trace = EditTrace::default();
    match guarded(|| check(case, &mut trace)) {
        Err(panic) => report.library_panic(&panic),
        Ok(Err(m)) => {
            if m.starts_with("[C15-F19]") {
                report.finding(ctx, "C15-F19", m, serde_json::to_value(case).unwrap());
            } else {
                report.violation("dom-edit", m, serde_json::to_value(case).unwrap());
            }
        }
        Ok(Ok(())) => {
            if trace.targets_seen > 0 && (trace.edits > 0 || trace.selector_decisions > 0) {
                report.nontrivial(fnv_str(&serde_json::to_string(case).unwrap()));
            }
            report.count_n("edits_applied_by_the_reference", trace.edits as u64);
            report.count_n("selector_decisions", trace.selector_decisions as u64);
            for f in &case.filters {
                report.count(&format!("filters_{}", f.action));
                report.count(&format!(
                    "selector_{}",
                    match &f.selector {
                        None => "absent",
                        Some(None) => "empty",
                        Some(Some(_)) => "present",
                    }
                ));
                report.state("path_depths", format!("{}", f.path.len()));
            }
            if case.doc.repeated_innermost {
                report.count("documents_with_repeated_sibling_targets");
            }
            if report.want_sample() && trace.edits >= 2 && case.doc.source().len() < 500 {
                report.sample(json!({
                    "document": case.doc.source(),
                    "filters": case.filters.iter().map(|f| json!({"action": f.action, "path": f.path, "selector": f.selector_text(), "value": f.value.to_string()})).collect::<Vec<_>>(),
                    "expected": expected(case, &mut EditTrace::default()),
                }));
            }
        }
    }
}

pub fn run(ctx: &Ctx, _args: &Args) -> i32 {
    let started = Instant::now();
    let jobs = ctx.jobs;
    let docs: u64 = ctx.tier.pick(200_000, 5_000_000);
    let lists_per_doc = 8;
    let report = run_sharded(jobs, |shard, report| {
        let mut rng = Rng::stream(ctx.seed, shard as u64);
        for _ in 0..(docs / jobs as u64) {
            let doc = random_doc(&mut rng, false);
            for _ in 0..lists_per_doc {
                let filters = random_filters(&mut rng, &doc);
                record(ctx, &Case { doc: doc.clone(), filters }, report);
            }
        }
    });
    finish(
        ctx,
        report,
        "generated DOM trees (html/head/body skeleton, a planted chain of unique path elements of depth 1-4, filler elements, void and self-closing elements, attributes in all quoting styles, entity text, multi-byte text, comments, scripts/styles with tag-like text, upper-case tags, repeated sibling targets incl. void/self-closing ones for replace) x lists of 1-3 filters (append_child / prepend_child / replace x selector absent / empty / tag / [attr] / [attr=\"v\"] / tag[attr] matching or not x path prefixes, also starting at body) whose values are generated subtrees; oracle = serialisation of the tree after the reference edit. non-trivial = distinct (document, filters) where the target exists and at least one edit or selector decision happened",
        &["selector grammar restricted to tag / [attr] / [attr=\"v\"] / tag[attr=\"v\"], never html/head/body (the library evaluates selectors on a fragment parse that drops those)", "single-chunk delivery (chunking is C03's subject)"],
        started,
        1000,
    )
    .exit_code
}

pub fn replay(_ctx: &Ctx, case: &Value) -> i32 {
    let case: Case = match serde_json::from_value(case.clone()) {
        Ok(c) => c,
        Err(e) => {
            eprintln!("bad case: {e}");
            return 2;
        }
    };
    let failures = match guarded(|| check(&case, &mut EditTrace::default())) {
        Err(p) => vec![format!("panic: {p}")],
        Ok(Err(m)) => vec![m],
        Ok(Ok(())) => vec![],
    };
    super::replay_verdict("C15", failures)
}
