//! C16 — the HTML tokenizer is lossless and total on arbitrary bytes.
//!
//! Span-accounting monitor at the tokenizer boundary: drive `Tokenizer::next` to the error token,
//! check termination within |b|+1 tokens, that every token consumes at least one byte, that
//! concat(raw(tok_i)) + raw(error token) + buffered() == b, that accessors never panic and succeed
//! on valid UTF-8, and that calling accessors does not perturb tokenisation (twin run).

use super::Args;
use crate::corpus;
use crate::prng::{fnv, Rng};
use crate::report::{finish, Ctx, Report};
use crate::util::{guarded, hex, run_sharded, show, unhex};
use redirectionio::html::{TokenType, Tokenizer};
use serde_json::{json, Value};
use crate::util::stall;
use std::sync::{Arc, OnceLock};
use std::time::{Duration, Instant};

pub const ALPHABET: &[u8] = b"<>/!-=\"' ast?[]";
pub const SUB_ALPHABET: &[u8] = b"<>/!-=\" as?[";

const PREFIXES: &[&str] = &[
    "<script>",
    "<script><!--",
    "<script><!--<script>",
    "<script><!--<script></script>",
    "<title>",
    "<textarea>",
    "<style>",
    "<plaintext>",
    "<!--",
    "<![CDATA[",
    "<!DOCTYPE",
    "<a ",
    "<a b=",
    "<a b=\"",
    "</",
    "<?",
    "<xmp>",
    "<iframe>",
    "<noscript>",
    "<SCRIPT>",
];

pub struct Stats {
    pub tokens: usize,
    pub kinds: u32,
}

fn kind_bit(t: TokenType) -> u32 {
    match t {
        TokenType::NoneToken => 1,
        TokenType::ErrorToken => 2,
        TokenType::TextToken => 4,
        TokenType::StartTagToken => 8,
        TokenType::EndTagToken => 16,
        TokenType::SelfClosingTagToken => 32,
        TokenType::CommentToken => 64,
        TokenType::DoctypeToken => 128,
    }
}

/// inputs currently inside the tokenizer, per worker (termination is part of the statement: see util::stall)
static WATCH: OnceLock<Arc<stall::Watch>> = OnceLock::new();

fn stall_case(bytes: &[u8], meta: &str) -> Value {
    // meta = "<context>|<allow_cdata>"
    let (context, cdata) = meta.rsplit_once('|').unwrap_or(("", "true"));
    json!({"bytes_hex": hex(bytes), "shown": show(bytes), "context": context, "allow_cdata": cdata == "true"})
}

/// The oracle. Returns Err(description) on any violation of the property.
pub fn check_bytes(b: &[u8]) -> Result<Stats, String> {
    check_bytes_mode(b, "", true)
}

/// fragment contexts of the public constructor (raw-text contexts, RCDATA contexts, plaintext, an ordinary
/// element, odd case) — the statement quantifies over every byte sequence for the tokenizer as such
pub const CONTEXTS: &[&str] = &["script", "STYLE", "title", "textarea", "plaintext", "xmp", "iframe", "noscript", "div", "Script"];

const CONTEXT_META_TRUE: &[&str] = &["|true", "script|true", "STYLE|true", "title|true", "textarea|true", "plaintext|true", "xmp|true", "iframe|true", "noscript|true", "div|true", "Script|true"];
const CONTEXT_META_FALSE: &[&str] = &["|false", "script|false", "STYLE|false", "title|false", "textarea|false", "plaintext|false", "xmp|false", "iframe|false", "noscript|false", "div|false", "Script|false"];

fn context_index(context: &str) -> usize {
    if context.is_empty() {
        0
    } else {
        CONTEXTS.iter().position(|c| *c == context).map(|i| i + 1).unwrap_or(0)
    }
}

fn make(b: &[u8], context: &str, allow_cdata: bool) -> Tokenizer {
    let mut t = if context.is_empty() { Tokenizer::new(b.to_vec()) } else { Tokenizer::new_fragment(b.to_vec(), context.to_string()) };
    if !allow_cdata {
        t.allow_cdata(false);
    }
    t
}

pub fn check_bytes_mode(b: &[u8], context: &str, allow_cdata: bool) -> Result<Stats, String> {
    let valid_utf8 = std::str::from_utf8(b).is_ok();
    let limit = b.len() + 1;

    // plain run: no accessor calls
    let mut plain = make(b, context, allow_cdata);
    let mut plain_tokens: Vec<(TokenType, Vec<u8>)> = Vec::new();
    let mut rebuilt: Vec<u8> = Vec::with_capacity(b.len());
    let mut kinds = 0u32;

    loop {
        let token = match plain.next() {
            Ok(t) => t,
            Err(e) => {
                // tokenisation is total: next() has no failure mode on any byte sequence
                return Err(format!("next() returned Err({e}) after {} tokens (valid UTF-8 input: {valid_utf8})", plain_tokens.len()));
            }
        };
        kinds |= kind_bit(token);

        if token == TokenType::ErrorToken {
            rebuilt.extend(plain.raw());
            rebuilt.extend(plain.buffered());
            break;
        }

        let raw = plain.raw();
        if raw.is_empty() {
            return Err(format!("token #{} ({:?}) has an empty raw span", plain_tokens.len(), token));
        }
        rebuilt.extend_from_slice(&raw);
        plain_tokens.push((token, raw));

        if plain_tokens.len() > limit {
            return Err(format!("more than |b|+1 = {} tokens produced", limit));
        }
    }

    if rebuilt != b {
        return Err(format!(
            "raw spans + remainder do not reproduce the input: got '{}' expected '{}'",
            show(&rebuilt),
            show(b)
        ));
    }

    // after the error token the tokenizer must stay at the error token (termination is stable)
    match plain.next() {
        Ok(TokenType::ErrorToken) => {}
        Ok(other) if plain.raw().is_empty() => {
            return Err(format!("token {:?} with empty span produced after the error token", other));
        }
        _ => {}
    }

    // twin run: call every accessor on every token
    let mut twin = make(b, context, allow_cdata);
    let mut index = 0usize;
    loop {
        let token = match twin.next() {
            Ok(t) => t,
            Err(_) => TokenType::ErrorToken,
        };
        if token == TokenType::ErrorToken {
            if index != plain_tokens.len() {
                return Err(format!(
                    "accessor calls changed tokenisation: twin ended after {} tokens, plain run had {}",
                    index,
                    plain_tokens.len()
                ));
            }
            let _ = twin.raw_as_string();
            let _ = twin.buffered_as_string();
            let _ = twin.token();
            break;
        }
        if index >= plain_tokens.len() || plain_tokens[index].0 != token || plain_tokens[index].1 != twin.raw() {
            return Err(format!("accessor calls changed tokenisation at token #{index}"));
        }
        index += 1;

        let raw_s = twin.raw_as_string();
        let buf_s = twin.buffered_as_string();
        let tok = twin.token();
        // accessors are also callable twice (consumed spans)
        let name2 = twin.tag_name();
        let attr2 = twin.tag_attr();
        let text2 = twin.text();
        if valid_utf8 {
            if let Err(e) = &raw_s {
                return Err(format!("raw_as_string failed on valid UTF-8: {e}"));
            }
            if let Err(e) = &buf_s {
                return Err(format!("buffered_as_string failed on valid UTF-8: {e}"));
            }
            match &tok {
                Err(e) => return Err(format!("token() failed on valid UTF-8: {e}")),
                Ok(t) => match token {
                    TokenType::StartTagToken | TokenType::EndTagToken | TokenType::SelfClosingTagToken => {
                        if t.data.as_deref().map(|d| d.is_empty()).unwrap_or(true) {
                            return Err(format!("tag token #{} has no tag name (raw '{}')", index - 1, show(&twin.raw())));
                        }
                        for a in &t.attrs {
                            if a.key.is_none() || a.value.is_none() {
                                return Err("attribute without key/value on valid UTF-8".to_string());
                            }
                        }
                    }
                    _ => {
                        if t.data.is_none() {
                            return Err(format!("{:?} token without text", token));
                        }
                    }
                },
            }
            if name2.is_err() || attr2.is_err() || text2.is_err() {
                return Err("second accessor call failed on valid UTF-8".to_string());
            }
        }
        if index > limit {
            return Err("twin run exceeded the token bound".to_string());
        }
    }

    Ok(Stats {
        tokens: plain_tokens.len(),
        kinds,
    })
}


// ---------------------------------------------------------------------------------------------
// accessors on tags built part by part: "accessors succeed whenever the underlying bytes are valid UTF-8" is a
// statement about the bytes *of that name / attribute*, not about the whole tag or the whole input. A tag is
// assembled from a name and attributes known by construction, an invalid byte is planted in at most one part, and
// every other part must still be returned, with the expected text.

#[derive(Clone, Debug, serde::Serialize, serde::Deserialize)]
pub struct TagCase {
    pub end_tag: bool,
    pub name: String,
    /// (key, value, quote: 0 none | 1 double | 2 single)
    pub attrs: Vec<(String, String, u8)>,
    /// part that receives the invalid byte: None, Some(0) = the name, Some(2k+1) = key of attribute k,
    /// Some(2k+2) = value of attribute k; for an end tag Some(1) = garbage after the name
    pub corrupt: Option<usize>,
    pub bad_byte: u8,
    pub at: usize,
}

fn plant(part: &str, byte: u8, at: usize) -> Vec<u8> {
    let mut b = part.as_bytes().to_vec();
    // never before the first character: a tag name must begin with an ASCII letter to be a tag at all
    let mut pos = if b.is_empty() { 0 } else { 1 + at % b.len() };
    while !part.is_char_boundary(pos) {
        pos -= 1;
    }
    b.insert(pos, byte);
    b
}

pub fn check_tag(case: &TagCase) -> Result<(), String> {
    let part = |text: &str, index: usize| -> Vec<u8> {
        if case.corrupt == Some(index) {
            plant(text, case.bad_byte, case.at)
        } else {
            text.as_bytes().to_vec()
        }
    };
    let mut input: Vec<u8> = b"t".to_vec();
    input.extend_from_slice(if case.end_tag { b"</" } else { b"<" });
    input.extend(part(&case.name, 0));
    if case.end_tag {
        if case.corrupt == Some(1) {
            input.extend_from_slice(&[b' ', case.bad_byte, 0xfe]);
        }
    } else {
        for (k, (key, value, quote)) in case.attrs.iter().enumerate() {
            input.push(b' ');
            input.extend(part(key, 2 * k + 1));
            input.push(b'=');
            let q: &[u8] = match quote {
                1 => b"\"",
                2 => b"'",
                _ => b"",
            };
            input.extend_from_slice(q);
            input.extend(part(value, 2 * k + 2));
            input.extend_from_slice(q);
        }
    }
    input.extend_from_slice(b">u");
    let mut t = Tokenizer::new(input.clone());
    let first = t.next();
    if !matches!(first, Ok(TokenType::TextToken)) {
        return Err(format!("'{}': first token is {:?}, expected the text 't'", show(&input), first));
    }
    let tag = t.next();
    let expected_kind = if case.end_tag { TokenType::EndTagToken } else { TokenType::StartTagToken };
    if !matches!(&tag, Ok(k) if std::mem::discriminant(k) == std::mem::discriminant(&expected_kind)) {
        return Err(format!("'{}': second token is {:?}, expected {:?}", show(&input), tag, expected_kind));
    }
    let name = t.tag_name();
    if case.corrupt == Some(0) {
        if let Ok((Some(n), _)) = &name {
            return Err(format!("'{}': tag_name() returned {:?} although the name is not valid UTF-8", show(&input), n));
        }
    } else {
        match &name {
            Ok((Some(n), _)) if *n == case.name.to_lowercase() => {}
            other => return Err(format!("'{}': the bytes of the tag name are valid UTF-8 ({:?}) but tag_name() returned {:?}", show(&input), case.name, other)),
        }
    }
    if !case.end_tag {
        for (k, (key, value, _)) in case.attrs.iter().enumerate() {
            let got = t.tag_attr();
            let corrupted = case.corrupt == Some(2 * k + 1) || case.corrupt == Some(2 * k + 2);
            if corrupted {
                if let Ok((Some(_), Some(_), _)) = &got {
                    return Err(format!("'{}': tag_attr() #{k} succeeded although the attribute is not valid UTF-8", show(&input)));
                }
            } else {
                match &got {
                    Ok((Some(gk), Some(gv), _)) if *gk == key.to_lowercase() && gv == value => {}
                    other => return Err(format!("'{}': the bytes of attribute #{k} are valid UTF-8 ({key:?}={value:?}) but tag_attr() returned {:?}", show(&input), other)),
                }
            }
        }
    }
    Ok(())
}

fn random_tag_case(rng: &mut Rng) -> TagCase {
    let end_tag = rng.chance(1, 5);
    let name = rng.pick(&["a", "div", "DIV", "caf\u{e9}", "x-y", "Sp\u{e4}n", "p"]).to_string();
    let n = if end_tag { 0 } else { rng.below(4) };
    let mut attrs: Vec<(String, String, u8)> = Vec::new();
    for k in 0..n {
        let key = format!("{}{k}", rng.pick(&["href", "title", "DATA-x", "\u{e9}k", "lang"]));
        let quote = rng.below(3) as u8;
        let value = if quote == 0 { rng.pick(&["v", "caf\u{e9}", "\u{1f355}", "/x/y"]).to_string() } else { rng.pick(&["", "v", "a b", "caf\u{e9}", "\u{1f355} \u{65e5}", "a>b"]).to_string() };
        attrs.push((key, value, quote));
    }
    let parts = if end_tag { 2 } else { 1 + 2 * attrs.len() };
    let corrupt = if rng.chance(1, 6) { None } else { Some(rng.below(parts)) };
    TagCase {
        end_tag,
        name,
        attrs,
        corrupt,
        // invalid in every position: 0xFF / 0xFE never occur in UTF-8, 0xC0 is never a valid lead, 0x80 / 0xBF planted
        // at a character boundary are stray continuation bytes
        bad_byte: *rng.pick(&[0xffu8, 0xfe, 0xc0, 0x80, 0xbf]),
        at: rng.below(16),
    }
}

fn check_and_record(b: &[u8], enumerated: bool, ctx_label: &str, report: &mut Report) {
    check_and_record_mode(b, enumerated, ctx_label, "", true, report)
}

fn check_and_record_mode(b: &[u8], enumerated: bool, ctx_label: &str, context: &str, allow_cdata: bool, report: &mut Report) {
    report.eval();
    if !context.is_empty() || !allow_cdata {
        report.count("inputs_tokenised_in_a_fragment_context_or_without_cdata");
    }
    if let Some(w) = WATCH.get() {
        w.enter(b, if allow_cdata { CONTEXT_META_TRUE[context_index(context)] } else { CONTEXT_META_FALSE[context_index(context)] });
    }
    let outcome = guarded(|| check_bytes_mode(b, context, allow_cdata));
    if let Some(w) = WATCH.get() {
        w.leave();
    }
    match outcome {
        Err(panic) => {
            report.violation(
                "panic",
                format!("tokenizer (context {context:?}, allow_cdata {allow_cdata}) panicked on '{}': {}", show(b), panic),
                json!({"bytes_hex": hex(b), "shown": show(b), "context": context, "allow_cdata": allow_cdata}),
            );
        }
        Ok(Err(msg)) => {
            let msg = if context.is_empty() && allow_cdata { msg } else { format!("(context {context:?}, allow_cdata {allow_cdata}) {msg}") };
            report.violation("lossless", msg, json!({"bytes_hex": hex(b), "shown": show(b), "context": context, "allow_cdata": allow_cdata}));
        }
        Ok(Ok(stats)) => {
            if stats.tokens >= 2 {
                if enumerated {
                    report.nontrivial_enumerated();
                } else {
                    report.nontrivial(fnv(b));
                }
            }
            report.count_n("tokens", stats.tokens as u64);
            for (bit, name) in [
                (4u32, "text"),
                (8, "start_tag"),
                (16, "end_tag"),
                (32, "self_closing"),
                (64, "comment"),
                (128, "doctype"),
            ] {
                if stats.kinds & bit != 0 {
                    report.count(&format!("inputs_with_{name}_token"));
                }
            }
            if report.want_sample() && stats.tokens >= 3 {
                report.sample(json!({"space": ctx_label, "input": show(b), "tokens": stats.tokens}));
            }
        }
    }
}

fn enumerate(alphabet: &[u8], prefix: &[u8], len: usize, shard: usize, jobs: usize, label: &str, report: &mut Report) {
    let k = alphabet.len() as u64;
    let total = k.pow(len as u32);
    let mut buf = prefix.to_vec();
    buf.resize(prefix.len() + len, 0);
    let mut i = shard as u64;
    while i < total {
        let mut x = i;
        for pos in 0..len {
            buf[prefix.len() + pos] = alphabet[(x % k) as usize];
            x /= k;
        }
        check_and_record(&buf, true, label, report);
        i += jobs as u64;
    }
}

/// all strings of exactly `len` symbols, tokenised in a fragment context
fn enumerate_mode(alphabet: &[u8], len: usize, context: &str, allow_cdata: bool, report: &mut Report) {
    let k = alphabet.len();
    let total = k.pow(len as u32);
    let mut buf = vec![0u8; len];
    for mut n in 0..total {
        for slot in buf.iter_mut() {
            *slot = alphabet[n % k];
            n /= k;
        }
        check_and_record_mode(&buf, true, "fragment-exhaustive", context, allow_cdata, report);
    }
}

fn random_char(rng: &mut Rng) -> char {
    // valid scalar values whose encodings cover every continuation byte 0x80..=0xBF
    let cp = match rng.below(5) {
        // characters whose encoding contains the bytes 0x85 / 0xA0 (NEL / NBSP when misread as Latin-1 "white space")
        4 => *rng.pick(&[0xE0u32, 0xA0, 0xC5, 0x445, 0x5168, 0x85, 0x2005, 0x1F605]),
        0 => 0x80 + rng.below(0x780) as u32,
        1 => 0xA0 + rng.below(0x60) as u32,
        2 => 0x800 + rng.below(0xD000) as u32,
        _ => 0x10000 + rng.below(0x20000) as u32,
    };
    char::from_u32(cp).unwrap_or('\u{e9}')
}

fn random_input(rng: &mut Rng, corpus: &[Vec<u8>]) -> Vec<u8> {
    match rng.below(7) {
        6 => {
            // valid UTF-8: markup alphabet interleaved with random non-ASCII characters (tag names,
            // attribute names and values, text, comments all get multi-byte characters)
            let n = rng.range(2, 40);
            let mut s = String::new();
            for _ in 0..n {
                if rng.chance(1, 3) {
                    s.push(random_char(rng));
                } else {
                    s.push(*rng.pick(ALPHABET) as char);
                }
            }
            s.into_bytes()
        }
        0 => {
            // arbitrary bytes
            let n = rng.range(0, 64);
            (0..n).map(|_| rng.byte()).collect()
        }
        1 => {
            // markup alphabet, longer
            let n = rng.range(8, 120);
            (0..n).map(|_| *rng.pick(ALPHABET)).collect()
        }
        2 => {
            // markup alphabet + raw-text tag names + bytes
            let pieces: [&[u8]; 24] = [
                b"<script", b"</script", b"<!--", b"-->", b"--!>", b"<style>", b"</style>", b"<title>", b"</title >",
                b"<textarea>", b"</textarea/", b"<![CDATA[", b"]]>", b"<!DOCTYPE ", b"<a href=", b"\"", b"'", b">", b"/>", b" ",
                b"<plaintext>", b"<SCRIPT>", b"\xc3\xa9", b"\xff",
            ];
            let n = rng.range(1, 14);
            let mut v = Vec::new();
            for _ in 0..n {
                if rng.chance(1, 5) {
                    v.push(*rng.pick(ALPHABET));
                } else {
                    v.extend_from_slice(pieces[rng.below(pieces.len())]);
                }
            }
            v
        }
        _ => {
            // mutated corpus document
            let mut v = rng.pick(corpus).clone();
            let edits = rng.range(0, 4);
            for _ in 0..edits {
                if v.is_empty() {
                    break;
                }
                match rng.below(5) {
                    0 => {
                        let at = rng.below(v.len());
                        v.truncate(at);
                    }
                    1 => {
                        let at = rng.below(v.len());
                        v[at] = if rng.coin() { *rng.pick(ALPHABET) } else { rng.byte() };
                    }
                    2 => {
                        let at = rng.below(v.len() + 1);
                        v.insert(at, *rng.pick(ALPHABET));
                    }
                    3 => {
                        let a = rng.below(v.len());
                        let b = (a + rng.range(1, 12)).min(v.len());
                        v.drain(a..b);
                    }
                    _ => {
                        let a = rng.below(v.len());
                        let b = (a + rng.range(1, 12)).min(v.len());
                        let dup: Vec<u8> = v[a..b].to_vec();
                        let at = rng.below(v.len() + 1);
                        for (i, byte) in dup.into_iter().enumerate() {
                            v.insert(at + i, byte);
                        }
                    }
                }
            }
            v
        }
    }
}

pub fn run(ctx: &Ctx, _args: &Args) -> i32 {
    let started = Instant::now();
    let max_len = ctx.tier.pick(7usize, 8usize);
    let suffix_len = ctx.tier.pick(5usize, 6usize);
    let random_cases: u64 = ctx.tier.pick(4_000_000, 60_000_000);
    let corpus = corpus::html_documents();
    let jobs = ctx.jobs;

    let watch = WATCH.get_or_init(|| stall::Watch::new(jobs)).clone();
    {
        let ctx2 = ctx.clone();
        stall::spawn_monitor(
            watch.clone(),
            "C16",
            ctx.verif_dir.clone(),
            Duration::from_secs(20),
            stall_case,
            Box::new(move |verdict, notes| {
                let stall::Verdict::NonTerminating { case, .. } = verdict;
                let mut report = Report::new();
                report.eval();
                for n in notes {
                    report.inconclusive(n);
                }
                report.violation(
                    "non-termination",
                    format!(
                        "tokenisation of '{}' does not terminate: replayed alone in a fresh process it was still running after {} s of CPU time (an input needs microseconds)",
                        case.get("shown").and_then(|v| v.as_str()).unwrap_or("?"),
                        stall::CPU_LIMIT_ALONE
                    ),
                    case,
                );
                report.notes.insert("aborted".into(), json!("the run was cut short by the non-termination verdict: counts below are those of the verdict only"));
                let outcome = finish(&ctx2, report, "run aborted by a confirmed non-terminating input (see violations)", &["RLIMIT_CPU as the clock of the verdict"], started, 0);
                std::process::exit(outcome.exit_code.max(1));
            }),
        );
    }

    let mut report = run_sharded(jobs, |shard, report| {
        watch.register(shard);
        for len in 0..=max_len {
            if len == 0 && shard != 0 {
                continue;
            }
            enumerate(ALPHABET, b"", len, shard, jobs, "exhaustive-15", report);
        }
        if ctx.tier.pick(false, true) {
            enumerate(SUB_ALPHABET, b"", 9, shard, jobs, "exhaustive-12", report);
        }
        for prefix in PREFIXES {
            for len in 1..=suffix_len {
                enumerate(ALPHABET, prefix.as_bytes(), len, shard, jobs, "prefix+suffix", report);
            }
        }
        let mut rng = Rng::stream(ctx.seed, shard as u64);
        let per_shard = random_cases / jobs as u64;
        for _ in 0..per_shard {
            let input = random_input(&mut rng, &corpus);
            check_and_record(&input, false, "random", report);
            if rng.chance(1, 4) {
                let context = if rng.chance(1, 5) { "" } else { *rng.pick(CONTEXTS) };
                let allow_cdata = !context.is_empty() && rng.coin();
                check_and_record_mode(&input, false, "random-fragment", context, allow_cdata, report);
            }
        }
        // tags built part by part, an invalid byte in at most one part
        for _ in 0..ctx.tier.pick(20_000u64, 400_000u64) {
            let case = random_tag_case(&mut rng);
            report.eval();
            match guarded(|| check_tag(&case)) {
                Err(panic) => report.violation("panic", format!("tokenizer accessors panicked on {case:?}: {panic}"), json!({"tag": case})),
                Ok(Err(m)) => report.violation("accessor", m, json!({"tag": case})),
                Ok(Ok(())) => {
                    report.count("constructed_tags_checked");
                    if case.corrupt.is_some() {
                        report.count("constructed_tags_with_one_invalid_part");
                    }
                }
            }
        }
        // short strings in every fragment context
        for (ci, context) in CONTEXTS.iter().enumerate() {
            for cdata in [true, false] {
                if (ci * 2 + cdata as usize) % jobs != shard {
                    continue;
                }
                for len in 0..=4 {
                    enumerate_mode(ALPHABET, len, context, cdata, report);
                }
            }
        }
        // every corpus document and every prefix of it
        for (i, doc) in corpus.iter().enumerate() {
            if i % jobs != shard {
                continue;
            }
            for end in 0..=doc.len() {
                check_and_record(&doc[..end], false, "corpus-prefix", report);
            }
        }
    });

    let k = ALPHABET.len() as u64;
    let exhaustive_total: u64 = (0..=max_len as u32).map(|l| k.pow(l)).sum();
    report.exhaustive.insert(
        format!("all strings of length <= {max_len} over the {}-symbol markup alphabet", ALPHABET.len()),
        json!({"complete": true, "size": exhaustive_total, "alphabet": String::from_utf8_lossy(ALPHABET)}),
    );
    if ctx.tier.pick(false, true) {
        report.exhaustive.insert(
            "all strings of length 9 over the 12-symbol sub-alphabet".to_string(),
            json!({"complete": true, "size": (SUB_ALPHABET.len() as u64).pow(9), "alphabet": String::from_utf8_lossy(SUB_ALPHABET)}),
        );
    }
    report.exhaustive.insert(
        format!("{} context prefixes x all suffixes of length 1..={suffix_len}", PREFIXES.len()),
        json!({"complete": true, "size": PREFIXES.len() as u64 * (1..=suffix_len as u32).map(|l| k.pow(l)).sum::<u64>(), "prefixes": PREFIXES}),
    );
    report.notes.insert("exhaustive".into(), json!(false));
    report.notes.insert(
        "exhaustive_note".into(),
        json!("the enumerated sub-spaces listed under exhaustive_subspaces were covered completely; the random part was sampled"),
    );

    let outcome = finish(
        ctx,
        report,
        "inputs: exhaustive short strings over a markup alphabet (default constructor: length <= 7/8; every fragment context of Tokenizer::new_fragment x allow_cdata on/off: length <= 4), context prefixes x exhaustive suffixes, random bytes / markup pieces / mutated corpus documents, all prefixes of corpus documents; non-trivial = input producing >= 2 tokens (enumerated inputs are distinct by construction, random ones are de-duplicated by hash)",
        &["rustc/std", "String::from_utf8 as the definition of 'valid UTF-8'"],
        started,
        1000,
    );
    outcome.exit_code
}

pub fn replay(_ctx: &Ctx, case: &Value) -> i32 {
    if let Some(tag) = case.get("tag") {
        let failures = match serde_json::from_value::<TagCase>(tag.clone()) {
            Err(e) => {
                eprintln!("bad case: {e}");
                return 2;
            }
            Ok(tc) => match guarded(|| check_tag(&tc)) {
                Err(p) => vec![format!("panic: {p}")],
                Ok(Err(m)) => vec![m],
                Ok(Ok(())) => vec![],
            },
        };
        return super::replay_verdict("C16", failures);
    }
    let bytes = unhex(case.get("bytes_hex").and_then(|v| v.as_str()).unwrap_or(""));
    let context = case.get("context").and_then(|v| v.as_str()).unwrap_or("").to_string();
    let allow_cdata = case.get("allow_cdata").and_then(|v| v.as_bool()).unwrap_or(true);
    let failures = match guarded(|| check_bytes_mode(&bytes, &context, allow_cdata)) {
        Err(p) => vec![format!("panic: {p}")],
        Ok(Err(m)) => vec![m],
        Ok(Ok(_)) => vec![],
    };
    super::replay_verdict("C16", failures)
}
