//! C17 — the explain trace agrees with what matching actually does.
//!
//! Differential monitor on the C01 workload: routes appearing in trace_request == routes returned by
//! match_request on the normalised request (as sets), the traced final rule has the priority of
//! get_route, and for tie-free ranks the last TraceAction step is observationally equal (C05
//! protocol) to Action::from_routes_rule over the matched routes. Also after update histories.

use super::c05::{self, observe, CODES};
use super::Args;
use crate::prng::{fnv_str, mix, Rng};
use crate::report::{finish, Ctx, Report};
use crate::util::{guarded, run_sharded};
use crate::world::*;
use redirectionio::action::{Action, TraceAction};
use redirectionio::api::Rule;
use redirectionio::router::{Router, Trace};
use serde::{Deserialize, Serialize};
use serde_json::{json, Value};
use std::collections::BTreeSet;
use std::time::Instant;

#[derive(Clone, Debug, Serialize, Deserialize)]
pub struct Case {
    pub world: World,
    /// ids removed and re-inserted after the build (exercise the separately maintained trace traversal)
    #[serde(default)]
    pub churn: Vec<String>,
    pub request: ReqSpec,
    #[serde(default)]
    pub cached: bool,
}

pub struct Stats {
    pub matched: usize,
    pub trace_nodes: usize,
    pub unmatched_branch_seen: bool,
    pub action_compared: bool,
}

fn count_nodes(traces: &[Trace<Rule>]) -> (usize, bool) {
    // via serialisation (fields are crate-private)
    fn walk(v: &Value, nodes: &mut usize, unmatched_leaf: &mut bool) {
        if let Some(arr) = v.as_array() {
            for t in arr {
                *nodes += 1;
                let matched = t.get("matched").and_then(|m| m.as_bool()).unwrap_or(false);
                let children = t.get("children").cloned().unwrap_or(Value::Null);
                let has_children = children.as_array().map(|c| !c.is_empty()).unwrap_or(false);
                if matched && !has_children && t.get("type").and_then(|x| x.as_str()) != Some("storage") {
                    *unmatched_leaf = true;
                }
                walk(&children, nodes, unmatched_leaf);
            }
        }
    }
    let v = serde_json::to_value(traces).unwrap_or(Value::Null);
    let mut nodes = 0;
    let mut unmatched = false;
    walk(&v, &mut nodes, &mut unmatched);
    (nodes, unmatched)
}

pub fn build_router(case: &Case) -> Router<Rule> {
    let mut router = case.world.router();
    for id in &case.churn {
        if let Some(rule) = case.world.rules.iter().find(|r| r.id == *id) {
            router.remove(id);
            router.insert(rule.to_rule());
        }
    }
    if case.cached {
        router.cache(Some(10_000));
    }
    router
}

pub fn check(case: &Case, router: &Router<Rule>) -> Result<Stats, String> {
    let config = case.world.cfg.build();
    let raw = case.request.build_raw();
    let normalised = case.request.build(&config);

    let traces = router.trace_request(&raw);
    let traced_routes = Trace::<Rule>::get_routes_from_traces(&traces);
    let traced: BTreeSet<String> = traced_routes.iter().map(|r| r.id().to_string()).collect();
    let matched_routes = router.match_request(&normalised);
    let matched: BTreeSet<String> = matched_routes.iter().map(|r| r.id().to_string()).collect();
    if traced != matched {
        return Err(format!("routes in the trace {traced:?} != routes matched {matched:?}"));
    }

    // final route priority
    let route_trace = serde_json::to_value(router.get_trace(&raw)).map_err(|e| e.to_string())?;
    let final_priority = route_trace.get("final_route").and_then(|r| r.get("priority")).and_then(|p| p.as_i64());
    let direct_priority = router.get_route(&normalised).map(|r| r.priority());
    if final_priority != direct_priority {
        return Err(format!("priority of the traced final route {final_priority:?} != priority of get_route {direct_priority:?}"));
    }
    if let Some(p) = direct_priority {
        let max = matched_routes.iter().map(|r| r.priority()).max();
        if max != Some(p) {
            return Err(format!("get_route priority {p} is not the maximal priority {max:?} of the matched routes"));
        }
    }
    let listed: BTreeSet<String> = route_trace
        .get("routes")
        .and_then(|r| r.as_array())
        .map(|a| a.iter().filter_map(|r| r.get("id").and_then(|i| i.as_str()).map(|s| s.to_string())).collect())
        .unwrap_or_default();
    if listed != matched {
        return Err(format!("get_trace lists routes {listed:?}, matching returns {matched:?}"));
    }

    // action trace vs live action, for tie-free ranks
    let mut ranks = BTreeSet::new();
    let tie_free = matched_routes.iter().all(|r| ranks.insert(r.priority()));
    let mut action_compared = false;
    if tie_free {
        let steps = TraceAction::from_trace_rules(&traces, &normalised);
        let live = Action::from_routes_rule(matched_routes.clone(), &normalised, None);
        let last: Action = match steps.last() {
            None => Action::default(),
            Some(step) => {
                let v = serde_json::to_value(step).map_err(|e| e.to_string())?;
                serde_json::from_value(v.get("action").cloned().unwrap_or(Value::Null)).map_err(|e| format!("trace action json: {e}"))?
            }
        };
        if steps.is_empty() && !matched.is_empty() {
            return Err("no TraceAction step although rules matched".to_string());
        }
        for &c in CODES {
            let a = observe(&last, c);
            let b = observe(&live, c);
            if a != b {
                return Err(format!("last TraceAction step differs from the live action at code {c}:\n  trace {a:?}\n  live  {b:?}"));
            }
        }
        // the steps list the rules in application order and stop at a stop rule
        if steps.len() > matched.len() {
            return Err(format!("{} TraceAction steps for {} matched rules", steps.len(), matched.len()));
        }
        action_compared = !matched.is_empty();
    }

    let (nodes, unmatched_branch_seen) = count_nodes(&traces);
    Ok(Stats {
        matched: matched.len(),
        trace_nodes: nodes,
        unmatched_branch_seen,
        action_compared,
    })
}

fn random_effects(rng: &mut Rng, rule: &mut RuleSpec, distinct_rank: Option<u16>) {
    let g = c05::Grid {
        status: rng.below(c05::STATUS.len()),
        cond: *rng.pick(&[0usize, 0, 1, 2, 3]),
        flags: *rng.pick(&[0usize, 0, 0, 1, 2, 4]),
        log: rng.below(3),
        hdr: rng.below(5),
        body: rng.below(3),
        // deterministic sampling only (none / rate 0 / rate 100): the live pipeline and the action trace must take
        // the same decision, whatever the request's override
        sampling: *rng.pick(&[0usize, 0, 0, 1, 2]),
        target: rng.below(3),
    };
    let template = c05::rule_from_grid(&rule.id, 0, g);
    rule.effects = template.effects;
    if let Some(r) = distinct_rank {
        rule.rank = r;
    }
}

pub fn random_case_world(rng: &mut Rng) -> (World, Vec<String>, bool) {
    let max_rules = if rng.chance(1, 4) { 24 } else { 8 };
    let mut world = super::c01::random_world(rng, max_rules);
    // trace and match are both the library's: the marketing-parameter flag may be off as well, so that configurations
    // that rewrite *nothing* (all four ignore_* flags off) are among the routers
    if rng.chance(1, 3) {
        world.cfg.ignore_marketing_query_params = false;
    }
    let distinct = rng.chance(2, 3);
    let n = world.rules.len();
    let mut ranks: Vec<u16> = (0..n as u16).collect();
    rng.shuffle(&mut ranks);
    for (i, r) in world.rules.iter_mut().enumerate() {
        random_effects(rng, r, if distinct { Some(ranks[i]) } else { None });
    }
    let mut churn = Vec::new();
    if rng.chance(1, 2) {
        for r in &world.rules {
            if rng.chance(1, 3) {
                churn.push(r.id.clone());
            }
        }
    }
    (world, churn, rng.coin())
}

pub fn run(ctx: &Ctx, _args: &Args) -> i32 {
    let started = Instant::now();
    let jobs = ctx.jobs;
    let n_worlds: u64 = ctx.tier.pick(12_000, 250_000);

    let mut report = run_sharded(jobs, |shard, report| {
        let mut rng = Rng::stream(ctx.seed, shard as u64);
        for _ in 0..(n_worlds / jobs as u64) {
            let (world, churn, cached) = random_case_world(&mut rng);
            let model = Model::new(&world.cfg, &world.rules);
            let probes = probes_for(&model, &mut rng, 2, 4);
            let proto = Case {
                world: world.clone(),
                churn: churn.clone(),
                request: ReqSpec::get("/a"),
                cached,
            };
            let router = match guarded(|| build_router(&proto)) {
                Ok(r) => r,
                Err(panic) => {
                    report.library_panic(&panic);
                    continue;
                }
            };
            let world_hash = fnv_str(&serde_json::to_string(&world).unwrap());
            // requests as the proxy hands them over (normalised under the *default* configuration, not under the
            // router's): some carry an explicit sampling decision, some a URL that the router's own normalisation
            // rewrites (marketing parameter to set aside, characters to percent-encode, parameters to sort)
            let mut probes: Vec<ReqSpec> = probes.into_iter().map(|(q, _)| q).collect();
            let mut extra: Vec<ReqSpec> = Vec::new();
            for q in &probes {
                if !rng.chance(1, 3) {
                    continue;
                }
                let mut v = q.clone();
                v.url = match rng.below(4) {
                    0 => format!("{}{}utm_source=mail", v.url, if v.url.contains('?') { "&" } else { "?" }),
                    1 => format!("{}{}z=1&b=2", v.url, if v.url.contains('?') { "&" } else { "?" }),
                    2 => v.url.replace("/a", "/a b"),
                    _ => format!("{}/caf\u{e9}", v.url.split('?').next().unwrap_or("/")),
                };
                extra.push(v);
            }
            probes.extend(extra);
            for q in probes.iter_mut() {
                q.sampling_override = *rng.pick(&[None, None, Some(true), Some(false)]);
            }
            for q in probes {
                report.eval();
                let case = Case { request: q.clone(), ..proto.clone() };
                match guarded(|| check(&case, &router)) {
                    Err(panic) => report.library_panic(&panic),
                    Ok(Err(m)) => report.violation("trace-disagrees", m, serde_json::to_value(&case).unwrap()),
                    Ok(Ok(stats)) => {
                        report.count_n("trace_nodes_walked", stats.trace_nodes as u64);
                        if stats.matched > 0 || stats.unmatched_branch_seen {
                            report.nontrivial(mix(world_hash, fnv_str(&serde_json::to_string(&q).unwrap())));
                        }
                        if stats.matched > 0 {
                            report.count("pairs_with_nonempty_match");
                        }
                        if stats.matched >= 2 {
                            report.count("pairs_with_2_or_more_matched_rules");
                        }
                        if stats.unmatched_branch_seen {
                            report.count("pairs_with_a_matched_branch_ending_without_route");
                        }
                        if stats.action_compared {
                            report.count("pairs_where_last_trace_action_was_compared_with_live_action");
                        }
                        if report.want_sample() && stats.matched >= 2 && world.rules.len() <= 4 {
                            report.sample(json!({"config": world.cfg, "rules": world.rules.iter().map(|r| r.to_json()).collect::<Vec<_>>(), "request": q, "matched": stats.matched, "trace_nodes": stats.trace_nodes}));
                        }
                    }
                }
            }
        }
    });
    // the repository's own fixture rule sets (raw JSON rules) with their requests and requests of other fixtures
    let fixtures = crate::fixtures::load();
    let all_requests: Vec<ReqSpec> = fixtures.iter().flat_map(|f| f.requests.iter().cloned()).collect();
    let fx_report = run_sharded(jobs, |shard, report| {
        let mut rng = Rng::stream(ctx.seed, 5000 + shard as u64);
        for (i, fx) in fixtures.iter().enumerate() {
            if i % jobs != shard {
                continue;
            }
            for variant in 0..3 {
                let churn: Vec<String> = if variant == 1 { fx.world.rules.iter().filter(|_| rng.coin()).map(|r| r.id.clone()).collect() } else { vec![] };
                let proto = Case {
                    world: fx.world.clone(),
                    churn,
                    request: ReqSpec::get("/"),
                    cached: variant == 2,
                };
                let router = match guarded(|| build_router(&proto)) {
                    Ok(r) => r,
                    Err(panic) => {
                        report.library_panic(&panic);
                        continue;
                    }
                };
                let mut probes: Vec<ReqSpec> = fx.requests.clone();
                for _ in 0..12 {
                    probes.push(rng.pick(&all_requests).clone());
                }
                for q in probes {
                    report.eval();
                    let case = Case { request: q.clone(), ..proto.clone() };
                    match guarded(|| check(&case, &router)) {
                        Err(panic) => report.library_panic(&panic),
                        Ok(Err(m)) => report.violation("trace-disagrees", m, serde_json::to_value(&case).unwrap()),
                        Ok(Ok(stats)) => {
                            report.count("fixture_pairs_checked");
                            if stats.matched > 0 {
                                report.count("fixture_pairs_with_nonempty_match");
                                report.nontrivial(mix(fnv_str(&fx.name), fnv_str(&serde_json::to_string(&q).unwrap()) ^ variant));
                            }
                            if stats.action_compared {
                                report.count("pairs_where_last_trace_action_was_compared_with_live_action");
                            }
                        }
                    }
                }
            }
        }
    });
    report.merge(fx_report);
    report.notes.insert("fixture_worlds_parsed".into(), json!(fixtures.len()));
    if !report.counters.contains_key("pairs_where_last_trace_action_was_compared_with_live_action") {
        report.inconclusive("the TraceAction comparison was never exercised");
    }

    finish(
        ctx,
        report,
        "the rule sets and requests harvested from the repository's generated router test (plain, churned, cached), and the C01 router/request generator (all 7 layers, all 64 flag combinations) with random effects from the C05 grid, distinct ranks in two thirds of the routers, optional remove+re-insert churn and cache warm-up; per (router, request): set(routes in trace_request) == set(match_request(normalised)), get_trace final route priority == get_route priority == max priority, get_trace route list == matched, and for tie-free matches the last TraceAction step observed with the C05 protocol at 6 codes == live action. non-trivial = distinct (router, request) with a non-empty match or a matched trace branch that ends without a route",
        &["sets (not multisets), as the statement says", "trace internals are read through their serde serialisation"],
        started,
        1000,
    )
    .exit_code
}

pub fn replay(_ctx: &Ctx, case: &Value) -> i32 {
    let case: Case = match serde_json::from_value(case.clone()) {
        Ok(c) => c,
        Err(e) => {
            eprintln!("bad case: {e}");
            return 2;
        }
    };
    let failures = match guarded(|| {
        let router = build_router(&case);
        check(&case, &router)
    }) {
        Err(p) => vec![format!("panic: {p}")],
        Ok(Err(m)) => vec![m],
        Ok(Ok(_)) => vec![],
    };
    super::replay_verdict("C17", failures)
}
