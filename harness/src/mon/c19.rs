//! C19 — project-level analyses agree with the live pipeline and with full rebuilds.
//!
//! Differential monitor: every analysis (test examples, impact, explain, unit ids) computed
//! incrementally from Arc<Router>(B) + change-set D must equal the same analysis computed from
//! scratch on apply(B, D), in any rule order; the reported response must equal the live pipeline
//! driven by the harness through the public API in proxy order; redirect chains must follow an
//! independent follower (loop exactly when a (URL, method) repeats, hops <= max_hops + 1).

use super::c02::model_change_set_pub as apply_change_set;
use super::Args;
use crate::prng::{fnv_str, Rng};
use crate::report::{finish, Ctx, Report};
use crate::util::{guarded, run_sharded};
use crate::world::*;
use redirectionio::action::Action;
use redirectionio::api::{
    Example, ExplainRequestInput, ExplainRequestOutput, ExplainRequestProjectInput, ImpactInput, ImpactOutput, ImpactProjectInput, Rule, RuleChangeSet, TestExamplesInput,
    TestExamplesOutput, TestExamplesProjectInput, UnitIdsInput, UnitIdsOutput, UnitIdsProjectInput,
};
use redirectionio::http::Request;
use redirectionio::router::Router;
use serde::{Deserialize, Serialize};
use serde_json::{json, Value};
use std::collections::BTreeMap;
use std::sync::Arc;
use std::time::Instant;

pub const PROBE_BODY: &str = "<!DOCTYPE html>\n<html>\n    <head>\n    </head>\n    <body>\n    </body>\n</html>";

#[derive(Clone, Debug, Serialize, Deserialize)]
pub struct Case {
    pub cfg: Cfg,
    pub base: Vec<RuleSpec>,
    pub added: Vec<RuleSpec>,
    pub updated: Vec<RuleSpec>,
    pub deleted: Vec<String>,
    pub example: Value,
    pub max_hops: u8,
    pub domains: Vec<String>,
    /// rule analysed by the impact analysis and its action (add / update / delete)
    pub impact_rule: RuleSpec,
    pub impact_action: String,
    /// permutation seed for the standalone rule order
    pub order_seed: u64,
}

/// sort hash-ordered collections (trace children, storage route lists); keep every other array in order
pub fn canon(v: &Value, under_unordered: bool) -> Value {
    match v {
        Value::Array(items) => {
            let mut c: Vec<Value> = items.iter().map(|x| canon(x, under_unordered)).collect();
            if under_unordered {
                c.sort_by_key(|x| x.to_string());
            }
            Value::Array(c)
        }
        Value::Object(map) => {
            let mut m = serde_json::Map::new();
            let mut keys: Vec<&String> = map.keys().collect();
            keys.sort();
            for k in keys {
                if k == "match_traces" {
                    // trace node counts / empty buckets are bookkeeping that batch removals do not maintain and
                    // that the statement does not speak of: keep the set of traced route ids only
                    let mut ids: Vec<String> = Vec::new();
                    collect_route_ids(&map[k], &mut ids);
                    ids.sort();
                    ids.dedup();
                    m.insert(k.clone(), json!({"traced_route_ids": ids}));
                    continue;
                }
                // unit_ids_seen is filled in HashMap iteration order by the library
                let unordered = under_unordered || matches!(k.as_str(), "children" | "routes" | "unit_ids_seen");
                m.insert(k.clone(), canon(&map[k], unordered));
            }
            Value::Object(m)
        }
        other => other.clone(),
    }
}

fn collect_route_ids(v: &Value, out: &mut Vec<String>) {
    match v {
        Value::Array(a) => a.iter().for_each(|x| collect_route_ids(x, out)),
        Value::Object(m) => {
            if let Some(routes) = m.get("routes").and_then(|r| r.as_array()) {
                for r in routes {
                    if let Some(id) = r.get("id").and_then(|i| i.as_str()) {
                        out.push(id.to_string());
                    }
                }
            }
            if let Some(c) = m.get("children") {
                collect_route_ids(c, out);
            }
        }
        _ => {}
    }
}

/// path and values of the first structural difference between two JSON values
pub fn first_diff(a: &Value, b: &Value, path: &str) -> Option<String> {
    match (a, b) {
        (Value::Object(x), Value::Object(y)) => {
            let mut keys: Vec<&String> = x.keys().chain(y.keys()).collect();
            keys.sort();
            keys.dedup();
            for k in keys {
                match (x.get(k), y.get(k)) {
                    (Some(p), Some(q)) => {
                        if let Some(d) = first_diff(p, q, &format!("{path}.{k}")) {
                            return Some(d);
                        }
                    }
                    (p, q) => return Some(format!("{path}.{k}: {} vs {}", p.map(|v| crate::report::truncate(&v.to_string(), 200)).unwrap_or("<absent>".into()), q.map(|v| crate::report::truncate(&v.to_string(), 200)).unwrap_or("<absent>".into()))),
                }
            }
            None
        }
        (Value::Array(x), Value::Array(y)) => {
            if x.len() != y.len() {
                return Some(format!("{path}: arrays of length {} vs {}: {} vs {}", x.len(), y.len(), crate::report::truncate(&a.to_string(), 300), crate::report::truncate(&b.to_string(), 300)));
            }
            for (i, (p, q)) in x.iter().zip(y.iter()).enumerate() {
                if let Some(d) = first_diff(p, q, &format!("{path}[{i}]")) {
                    return Some(d);
                }
            }
            None
        }
        _ => {
            if a != b {
                Some(format!("{path}: {} vs {}", crate::report::truncate(&a.to_string(), 300), crate::report::truncate(&b.to_string(), 300)))
            } else {
                None
            }
        }
    }
}

fn ser<T: Serialize>(t: &T) -> Value {
    canon(&serde_json::to_value(t).unwrap_or(Value::Null), false)
}

fn to_rules(specs: &[RuleSpec]) -> Vec<Rule> {
    specs.iter().map(|r| r.to_rule()).collect()
}

fn change_set(case: &Case) -> RuleChangeSet {
    RuleChangeSet {
        added: to_rules(&case.added),
        updated: to_rules(&case.updated),
        deleted: case.deleted.iter().cloned().collect(),
    }
}

pub fn resulting_rules(case: &Case) -> Vec<RuleSpec> {
    let mut live: BTreeMap<String, RuleSpec> = case.base.iter().map(|r| (r.id.clone(), r.clone())).collect();
    apply_change_set(&mut live, &case.added, &case.updated, &case.deleted);
    live.into_values().collect()
}

fn example_of(v: &Value) -> Example {
    serde_json::from_value(v.clone()).expect("example json")
}

// ---------------------------------------------------------------------------------------------
// the live pipeline, driven through the public API in proxy order

#[derive(Debug, PartialEq, Eq)]
pub struct Live {
    pub final_status: u16,
    pub backend_status: u16,
    pub headers: Vec<(String, String)>,
    pub body: String,
    pub should_log: bool,
}

pub fn live_pipeline(router: &Router<Rule>, example: &Example) -> Option<Live> {
    let request = Request::from_example(&router.config, example).ok()?;
    let routes = router.match_request(&request);
    let mut action = Action::from_routes_rule(routes, &request, None);
    let at_request_time = action.get_status_code(0, None);
    let (final_status, backend_status) = if at_request_time != 0 {
        (at_request_time, at_request_time)
    } else {
        let backend = example.response_status_code.unwrap_or(200);
        (action.get_status_code(backend, None), backend)
    };
    let headers = action.filter_headers(Vec::new(), backend_status, false, None).into_iter().map(|h| (h.name, h.value)).collect();
    let body = match action.create_filter_body(backend_status, &[]) {
        None => PROBE_BODY.to_string(),
        Some(mut f) => {
            let mut out = f.filter(PROBE_BODY.as_bytes().to_vec(), None);
            out.extend(f.end(None));
            String::from_utf8_lossy(&out).to_string()
        }
    };
    let should_log = action.should_log_request(true, final_status, None);
    Some(Live {
        final_status,
        backend_status,
        headers,
        body,
        should_log,
    })
}

/// independent redirect follower built on the pipeline oracle
pub fn follow(router: &Router<Rule>, example: &Example, max_hops: u8, domains: &[String]) -> (Vec<(String, u16, String)>, &'static str) {
    let mut url = example.url.clone();
    let mut method = example.method.clone().unwrap_or_else(|| "GET".to_string());
    let mut hops = vec![(url.clone(), 0u16, method.clone())];
    let mut verdict = "none";
    for i in 1..=max_hops {
        let mut e = example.clone();
        e.url = url.clone();
        e.method = Some(method.clone());
        let live = match live_pipeline(router, &e) {
            Some(l) => l,
            None => break,
        };
        if ![301u16, 302, 307, 308].contains(&live.final_status) {
            break;
        }
        let location = match live.headers.iter().find(|(n, _)| n.to_lowercase() == "location") {
            Some((_, v)) => v.clone(),
            None => break,
        };
        url = match url::Url::parse(&url).ok().and_then(|b| b.join(&location).ok()) {
            Some(u) => u.to_string(),
            None => location,
        };
        if live.final_status == 301 || live.final_status == 302 {
            method = "GET".to_string();
        }
        let repeated = hops.iter().any(|(u, _, m)| *u == url && *m == method);
        hops.push((url.clone(), live.final_status, method.clone()));
        if repeated {
            verdict = "Loop";
            break;
        }
        if let Ok(parsed) = url::Url::parse(&url) {
            if !domains.is_empty() && !parsed.host_str().map(|h| domains.contains(&h.to_string())).unwrap_or(false) {
                break;
            }
        }
        if i >= max_hops {
            verdict = "TooManyHops";
            break;
        }
    }
    (hops, verdict)
}

fn check_loop(label: &str, loop_json: &Value, router: &Router<Rule>, example: &Example, max_hops: u8, domains: &[String]) -> Result<(), String> {
    if loop_json.is_null() {
        return Ok(());
    }
    let hops: Vec<(String, u16, String)> = loop_json
        .get("hops")
        .and_then(|h| h.as_array())
        .map(|a| {
            a.iter()
                .map(|h| {
                    (
                        h.get("url").and_then(|x| x.as_str()).unwrap_or("").to_string(),
                        h.get("status_code").and_then(|x| x.as_u64()).unwrap_or(0) as u16,
                        h.get("method").and_then(|x| x.as_str()).unwrap_or("").to_string(),
                    )
                })
                .collect()
        })
        .unwrap_or_default();
    let error = loop_json.get("error").and_then(|e| e.as_str()).unwrap_or("none").to_string();
    if hops.len() > max_hops as usize + 1 {
        return Err(format!("{label}: {} hops reported with max_hops = {max_hops}", hops.len()));
    }
    let (want_hops, want_verdict) = follow(router, example, max_hops, domains);
    if hops != want_hops {
        return Err(format!("{label}: redirect chain {hops:?} differs from the follower's {want_hops:?}"));
    }
    let got_verdict = match error.as_str() {
        "Loop" => "Loop",
        "TooManyHops" => "TooManyHops",
        _ => "none",
    };
    if got_verdict != want_verdict {
        return Err(format!("{label}: redirect analysis reports {error:?}, the follower says {want_verdict:?} for chain {hops:?}"));
    }
    // a loop is reported exactly when a (url, method) repeats
    let mut seen = std::collections::HashSet::new();
    let repeats = hops.iter().any(|(u, _, m)| !seen.insert((u.clone(), m.clone())));
    if repeats != (got_verdict == "Loop") {
        return Err(format!("{label}: Loop reported = {}, but a (url, method) repeats = {repeats} in {hops:?}", got_verdict == "Loop"));
    }
    Ok(())
}

fn check_response(label: &str, out: &Value, router: &Router<Rule>, example: &Example) -> Result<Option<&'static str>, String> {
    let live = match live_pipeline(router, example) {
        Some(l) => l,
        None => return Ok(None),
    };
    let status = out.get("response").and_then(|r| r.get("status_code")).and_then(|s| s.as_u64()).unwrap_or(0) as u16;
    let backend = out.get("backend_status_code").and_then(|s| s.as_u64()).unwrap_or(0) as u16;
    let headers: Vec<(String, String)> = out
        .get("response")
        .and_then(|r| r.get("headers"))
        .and_then(|h| h.as_array())
        .map(|a| {
            a.iter()
                .map(|h| (h.get("name").and_then(|x| x.as_str()).unwrap_or("").to_string(), h.get("value").and_then(|x| x.as_str()).unwrap_or("").to_string()))
                .collect()
        })
        .unwrap_or_default();
    let body = out.get("response").and_then(|r| r.get("body")).and_then(|b| b.as_str()).unwrap_or("").to_string();
    let should_log = out.get("should_log_request").and_then(|b| b.as_bool()).unwrap_or(false);
    let got = Live {
        final_status: status,
        backend_status: backend,
        headers,
        body,
        should_log,
    };
    // the backend status is bookkeeping when the status was decided at request time
    let same = got.final_status == live.final_status && got.headers == live.headers && got.body == live.body && got.should_log == live.should_log;
    if !same {
        // known class: an example carrying a response status code skips the request-time status decision
        let router_has_request_time_status = {
            let request = Request::from_example(&router.config, example).ok();
            request
                .map(|request| {
                    let mut a = Action::from_routes_rule(router.match_request(&request), &request, None);
                    a.get_status_code(0, None) != 0
                })
                .unwrap_or(false)
        };
        if router_has_request_time_status {
            return Err(format!(
                "[C19-F20] {label}: the example carries response_status_code {:?} and a rule decides the status at request time: the analysis reports {got:?}, the live pipeline {live:?}",
                example.response_status_code
            ));
        }
        return Err(format!("{label}: reported response {got:?} differs from the live pipeline {live:?}"));
    }
    Ok(Some("compared"))
}

pub struct Stats {
    pub change_changes_result: bool,
    pub analyses: u32,
    pub responses_compared: u32,
    pub chains_with_hops: u32,
}

pub fn check(case: &Case) -> Result<Stats, String> {
    let example = example_of(&case.example);
    let result = resulting_rules(case);
    let base_router = Arc::new(
        World {
            cfg: case.cfg.clone(),
            rules: case.base.clone(),
        }
        .router(),
    );
    let result_world = World {
        cfg: case.cfg.clone(),
        rules: result.clone(),
    };
    let result_router = result_world.router();
    let mut permuted = result.clone();
    Rng::new(case.order_seed).shuffle(&mut permuted);
    let mut stats = Stats {
        change_changes_result: false,
        analyses: 0,
        responses_compared: 0,
        chains_with_hops: 0,
    };

    // --- unit ids
    let u_project = ser(&UnitIdsOutput::create_result_from_project(UnitIdsProjectInput { change_set: change_set(case) }, base_router.clone()));
    for (label, rules) in [("sorted", &result), ("permuted", &permuted)] {
        let u_alone = ser(&UnitIdsOutput::create_result_without_project(UnitIdsInput {
            router_config: case.cfg.build(),
            rules: to_rules(rules),
        }));
        stats.analyses += 1;
        if u_alone != u_project {
            return Err(format!("unit-ids analysis: project variant differs from the standalone one ({label} rule order): first difference (project vs standalone) at {}", first_diff(&u_project, &u_alone, "$").unwrap_or_default()));
        }
    }

    // --- test examples
    let t_project = ser(&TestExamplesOutput::from_project(
        TestExamplesProjectInput {
            change_set: change_set(case),
            max_hops: case.max_hops,
            project_domains: case.domains.clone(),
        },
        base_router.clone(),
    ));
    for (label, rules) in [("sorted", &result), ("permuted", &permuted)] {
        let t_alone = ser(&TestExamplesOutput::create_result_without_project(TestExamplesInput {
            router_config: case.cfg.build(),
            rules: to_rules(rules),
            max_hops: case.max_hops,
            project_domains: case.domains.clone(),
        }));
        stats.analyses += 1;
        if t_alone != t_project {
            return Err(format!("test-examples analysis: project variant differs from the standalone one ({label} rule order): first difference (project vs standalone) at {}", first_diff(&t_project, &t_alone, "$").unwrap_or_default()));
        }
    }
    // every failed example with a redirection loop must agree with the follower
    if let Some(failures) = t_project.get("first_ten_failures").and_then(|f| f.as_object()) {
        for (_, failed_rule) in failures {
            for fe in failed_rule.get("failed_examples").and_then(|f| f.as_array()).cloned().unwrap_or_default() {
                if let (Some(ex), Some(l)) = (fe.get("example"), fe.get("redirection_loop")) {
                    if !l.is_null() {
                        check_loop("test-examples", l, &result_router, &example_of(ex), case.max_hops, &case.domains)?;
                    }
                }
            }
        }
    }

    // --- explain
    let e_project = ExplainRequestOutput::create_result_from_project(
        ExplainRequestProjectInput {
            example: example.clone(),
            change_set: change_set(case),
            max_hops: case.max_hops,
            project_domains: case.domains.clone(),
        },
        base_router.clone(),
    );
    let e_project_json = match &e_project {
        Ok(o) => ser(o),
        Err(e) => json!({"error": e.message}),
    };
    for (label, rules) in [("sorted", &result), ("permuted", &permuted)] {
        let e_alone = ExplainRequestOutput::create_result_without_project(ExplainRequestInput {
            router_config: case.cfg.build(),
            example: example.clone(),
            rules: to_rules(rules),
            max_hops: case.max_hops,
            project_domains: case.domains.clone(),
        });
        let e_alone_json = match &e_alone {
            Ok(o) => ser(o),
            Err(e) => json!({"error": e.message}),
        };
        stats.analyses += 1;
        if e_alone_json != e_project_json {
            return Err(format!("explain analysis: project variant differs from the standalone one ({label} rule order): first difference (project vs standalone) at {}", first_diff(&e_project_json, &e_alone_json, "$").unwrap_or_default()));
        }
    }
    if e_project.is_ok() {
        if check_response("explain", &e_project_json, &result_router, &example)?.is_some() {
            stats.responses_compared += 1;
        }
        let l = e_project_json.get("redirection_loop").cloned().unwrap_or(Value::Null);
        check_loop("explain", &l, &result_router, &example, case.max_hops, &case.domains)?;
        if l.get("hops").and_then(|h| h.as_array()).map(|h| h.len()).unwrap_or(0) > 1 {
            stats.chains_with_hops += 1;
        }
    }
    // does the change-set change the result for this example?
    let e_base = ExplainRequestOutput::create_result_without_project(ExplainRequestInput {
        router_config: case.cfg.build(),
        example: example.clone(),
        rules: to_rules(&case.base),
        max_hops: case.max_hops,
        project_domains: case.domains.clone(),
    });
    if let Ok(b) = e_base {
        let non_empty = !(case.added.is_empty() && case.updated.is_empty() && case.deleted.is_empty());
        stats.change_changes_result = non_empty && ser(&b) != e_project_json;
    }

    // --- impact
    for with_loop in [true, false] {
        let i_project = ser(&ImpactOutput::from_impact_project(
            ImpactProjectInput {
                max_hops: case.max_hops,
                with_redirection_loop: with_loop,
                domains: case.domains.clone(),
                rule: case.impact_rule.to_rule(),
                action: case.impact_action.clone(),
                change_set: change_set(case),
            },
            base_router.clone(),
        ));
        for (label, rules) in [("sorted", &result), ("permuted", &permuted)] {
            let i_alone = ser(&ImpactOutput::create_result(ImpactInput {
                router_config: case.cfg.build(),
                max_hops: case.max_hops,
                with_redirection_loop: with_loop,
                domains: case.domains.clone(),
                rule: case.impact_rule.to_rule(),
                action: case.impact_action.clone(),
                rules: to_rules(rules),
            }));
            stats.analyses += 1;
            if i_alone != i_project {
                return Err(format!(
                    "impact analysis ({}, with_redirection_loop={with_loop}): project variant differs from the standalone one ({label} rule order): first difference (project vs standalone) at {}",
                    case.impact_action,
                    first_diff(&i_project, &i_alone, "$").unwrap_or_default()
                ));
            }
        }
        // the responses reported by impact must be those of the live pipeline on the resulting router
        let mut impact_specs: Vec<RuleSpec> = result.iter().filter(|r| r.id != case.impact_rule.id).cloned().collect();
        if case.impact_action == "add" || case.impact_action == "update" {
            impact_specs.push(case.impact_rule.clone());
        }
        let impact_router = World {
            cfg: case.cfg.clone(),
            rules: impact_specs,
        }
        .router();
        for imp in i_project.get("impacts").and_then(|i| i.as_array()).cloned().unwrap_or_default() {
            if imp.get("error").map(|e| !e.is_null()).unwrap_or(false) {
                continue;
            }
            let ex = match imp.get("example") {
                Some(e) => example_of(e),
                None => continue,
            };
            if check_response("impact", &imp, &impact_router, &ex)?.is_some() {
                stats.responses_compared += 1;
            }
            if with_loop {
                let l = imp.get("redirection_loop").cloned().unwrap_or(Value::Null);
                check_loop("impact", &l, &impact_router, &ex, case.max_hops, &case.domains)?;
            }
        }
    }
    Ok(stats)
}

// ---------------------------------------------------------------------------------------------
// generation

const PATHS: &[&str] = &["/a", "/b", "/c", "/d", "/loop1", "/loop2", "/old", "/new", "/a/@n", "/x?y=1", "/Shop/@n", "/Shop/@n/x", "/Old", "/a/", "/new/"];

fn example_json(rng: &mut Rng, url: &str, must_match: bool, unit_ids: Vec<String>) -> Value {
    let mut e = serde_json::Map::new();
    // a few examples the request builder rejects (URL the URI parser refuses, method that is not a token):
    // the analyses report them as errored examples, identically from an existing router and from scratch
    let url = if rng.chance(1, 30) { format!("{url}`x") } else { url.to_string() };
    e.insert("url".into(), json!(url));
    let method = if rng.chance(1, 30) { Some("BAD METHOD") } else { *rng.pick(&[None, Some("GET"), Some("POST"), Some("PUT")]) };
    e.insert("method".into(), json!(method));
    if rng.chance(1, 3) {
        e.insert("headers".into(), json!([{"name": "X-A", "value": "Foo"}]));
    } else {
        e.insert("headers".into(), Value::Null);
    }
    if rng.chance(1, 4) {
        e.insert("datetime".into(), json!(T2));
    }
    e.insert("ip_address".into(), json!(*rng.pick(&[None, None, Some("10.1.2.3"), Some("2001:db8::1")])));
    e.insert("response_status_code".into(), json!(*rng.pick(&[None, None, Some(200u16), Some(404), Some(301)])));
    e.insert("must_match".into(), json!(must_match));
    e.insert("unit_ids_applied".into(), if rng.chance(1, 8) { Value::Null } else { json!(unit_ids) });
    Value::Object(e)
}

fn instantiate(path: &str) -> String {
    path.replace("@n", "12")
}

pub fn random_rule(rng: &mut Rng, id: &str, absolute: bool) -> RuleSpec {
    let path = *rng.pick(PATHS);
    let mut r = RuleSpec::simple(id, path);
    if path.contains("@n") {
        r.markers = vec![MarkerSpec { name: "n".into(), regex: "[0-9]+".into(), transformers: vec![] }];
    }
    r.rank = *rng.pick(&[0u16, 1, 2, 3, 10]);
    if absolute && rng.chance(1, 2) {
        r.host = Some(Template::lit(*rng.pick(&["example.org", "other.net"])));
    }
    if rng.chance(1, 4) {
        // one method, or several (the rule then sits in one bucket per method)
        r.methods = Some(match rng.below(3) {
            0 => vec!["GET".to_string(), "POST".to_string()],
            1 => vec!["POST".to_string(), "PUT".to_string(), "GET".to_string()],
            _ => vec![rng.pick(&["GET", "POST"]).to_string()],
        });
    }
    if rng.chance(1, 10) {
        // several ip ranges that contain the example addresses
        r.ips = Some(vec![IpSpec::In("10.0.0.0/8".into()), IpSpec::In("10.1.0.0/16".into())]);
    }
    if rng.chance(1, 12) {
        // an ip range together with an *excluded* method list: the rule sits alone in the exclusion bucket of its
        // ip-range bucket
        r.ips = Some(vec![IpSpec::In("10.0.0.0/8".into())]);
        r.methods = Some(vec![rng.pick(&["DELETE", "PUT"]).to_string()]);
        r.exclude_methods = Some(true);
    }
    if rng.chance(1, 6) {
        r.headers = vec![HeaderCond { name: "X-A".into(), kind: "is_defined".into(), value: None }];
    }
    let e = &mut r.effects;
    let redirect = rng.chance(2, 3);
    if redirect {
        e.status_code = Some(*rng.pick(&[301u16, 302, 307, 308, 301, 302]));
        let target_path = instantiate(*rng.pick(PATHS));
        e.target = Some(if absolute && rng.chance(1, 2) {
            format!("{}://{}{}", rng.pick(&["http", "https"]), rng.pick(&["example.org", "other.net", "external.io"]), target_path)
        } else if rng.chance(1, 8) {
            "relative/path".to_string()
        } else {
            target_path
        });
        e.redirect_unit_id = Some(format!("u-{id}-redirect"));
    } else {
        e.status_code = *rng.pick(&[None, Some(404u16), Some(410)]);
        e.target = None;
    }
    match rng.below(5) {
        0 => {
            e.response_status_codes = Some(vec![404]);
        }
        1 => {
            e.response_status_codes = Some(vec![200, 301]);
            e.exclude_response_status_codes = Some(true);
        }
        _ => {}
    }
    if rng.chance(1, 3) {
        let n = if rng.chance(1, 4) { 2 } else { 1 };
        e.header_filters = (0..n)
            .map(|_| {
                (
                    rng.pick(&["add", "override", "remove", "default", "replace"]).to_string(),
                    rng.pick(&["X-Robots-Tag", "Cache-Control", "cache-control"]).to_string(),
                    format!("v-{id}"),
                )
            })
            .collect();
        // unit ids on header filters: the unit-trace branches of the five header actions
        e.header_filter_units = rng.chance(2, 3);
    }
    if rng.chance(1, 4) {
        // every body action with and without unit id / target hash / selector (the analyses filter a fixed
        // skeleton document: selectors here never match it, except through what an earlier filter inserted)
        let with_id = rng.chance(3, 4);
        let with_hash = rng.chance(2, 3);
        let mut f = match rng.below(8) {
            0 => json!({"action": "append_text", "content": format!("<!-- {id} -->")}),
            1 => json!({"action": "prepend_text", "content": format!("<!-- pre {id} -->")}),
            2 => json!({"action": "replace_text", "content": format!("replaced by {id}")}),
            3 => json!({"action": "append_child", "value": format!("<meta name=\"{id}\">"), "element_tree": ["html", "head"], "css_selector": format!("meta[name=\"{id}\"]")}),
            4 => json!({"action": "append_child", "value": format!("<meta name=\"{id}\">"), "element_tree": ["html", "head"], "css_selector": if rng.coin() { Value::Null } else { json!("") }}),
            5 => json!({"action": "prepend_child", "value": format!("<meta name=\"{id}\">"), "element_tree": ["html", "head"], "css_selector": *rng.pick(&[Value::Null, json!("meta[name=\"description\"]"), json!("meta[name=\"nope\"]")])}),
            6 => json!({"action": "replace", "value": format!("<head><title>{id}</title></head>"), "element_tree": ["html", "head"], "css_selector": *rng.pick(&[Value::Null, json!(""), json!("title"), json!("nope")])}),
            _ => json!({"action": "append_child", "value": format!("<p>{id}</p>"), "inner_value": format!("{id}"), "element_tree": ["html", "body"], "css_selector": format!("p.{id}")}),
        };
        if with_id {
            let is_text = f.get("content").is_some();
            f["id"] = json!(format!("u-{id}-{}", if is_text { "text" } else { "html" }));
            if with_hash {
                f["target_hash"] = if is_text { json!("text") } else { json!(format!("el-{id}")) };
            }
        }
        e.body_filters = vec![f];
    }
    if rng.chance(1, 5) {
        e.log_override = Some(rng.coin());
        e.configuration_log_unit_id = Some(format!("u-{id}-log"));
    }
    if rng.chance(1, 8) {
        e.reset = Some(true);
        e.configuration_reset_unit_id = Some(format!("u-{id}-reset"));
    }
    if rng.chance(1, 10) {
        e.stop = Some(true);
        e.configuration_reset_unit_id = Some(format!("u-{id}-reset"));
    }
    // examples
    let n = rng.range(0, 3);
    let mut examples = Vec::new();
    for _ in 0..n {
        let own = rng.chance(2, 3);
        let p = if own { instantiate(path) } else { instantiate(*rng.pick(PATHS)) };
        let url = if absolute {
            let host = match &r.host {
                Some(h) => h.text(),
                None => "example.org".to_string(),
            };
            format!("http://{host}{p}")
        } else {
            p
        };
        let mut units = Vec::new();
        if redirect && rng.chance(3, 4) {
            units.push(format!("u-{id}-redirect"));
        }
        if rng.chance(1, 6) {
            units.push("u-unrelated".to_string());
        }
        let must_match = own || rng.chance(1, 4);
        examples.push(example_json(rng, &url, must_match, units));
    }
    if n > 0 || rng.coin() {
        e.examples = Some(examples);
    }
    r
}

pub fn random_case(rng: &mut Rng) -> Case {
    let absolute = rng.chance(1, 3);
    let mut cfg = Cfg::plain();
    cfg.always_match_any_host = rng.coin();
    cfg.ignore_marketing_query_params = rng.coin();
    // case policies: the incrementally updated router must keep them through emptied and refilled buckets
    cfg.ignore_path_and_query_case = rng.chance(1, 3);
    cfg.ignore_host_case = rng.chance(1, 4);
    cfg.ignore_header_case = rng.chance(1, 4);
    let n_ids = rng.range(3, 9);
    let ids: Vec<String> = (0..n_ids).map(|i| format!("r{i}")).collect();
    let mut base = Vec::new();
    for id in &ids {
        if rng.chance(2, 3) {
            base.push(random_rule(rng, id, absolute));
        }
    }
    let live: Vec<String> = base.iter().map(|r| r.id.clone()).collect();
    let mut added = Vec::new();
    let mut updated = Vec::new();
    let mut deleted = Vec::new();
    if rng.chance(5, 6) {
        for id in &ids {
            match rng.below(6) {
                0 if !live.contains(id) => added.push(random_rule(rng, id, absolute)),
                1 if live.contains(id) => updated.push(random_rule(rng, id, absolute)),
                2 => deleted.push(id.clone()),
                3 if !live.contains(id) && rng.chance(1, 4) => updated.push(random_rule(rng, id, absolute)),
                _ => {}
            }
        }
        deleted.retain(|d| !updated.iter().any(|u| u.id == *d) && !added.iter().any(|a| a.id == *d));
    }
    // the analysed example: of a rule, or arbitrary
    let url_path = instantiate(*rng.pick(PATHS));
    let url = if absolute { format!("http://{}{}", rng.pick(&["example.org", "other.net"]), url_path) } else { url_path };
    let example = example_json(rng, &url, true, vec![]);
    // impact: an existing id (update / delete) or a new one (add), also "add" of an id already in the change-set
    let impact_id = if rng.chance(2, 3) { rng.pick(&ids).clone() } else { "rnew".to_string() };
    let mut impact_rule = random_rule(rng, &impact_id, absolute);
    if impact_rule.effects.examples.as_ref().map(|e| e.is_empty()).unwrap_or(true) {
        let own = instantiate(&impact_rule.path.text());
        let u = if absolute { format!("http://example.org{own}") } else { own };
        impact_rule.effects.examples = Some(vec![example_json(rng, &u, true, vec![])]);
    }
    let ip_literal_host = absolute && rng.chance(1, 5);
    let case = Case {
        cfg,
        base,
        added,
        updated,
        deleted,
        example,
        max_hops: *rng.pick(&[0u8, 1, 2, 3, 5, 6]),
        domains: if absolute && rng.coin() { vec!["example.org".to_string(), "other.net".to_string()] } else { vec![] },
        impact_rule,
        impact_action: rng.pick(&["add", "update", "delete"]).to_string(),
        order_seed: rng.next_u64(),
    };
    if ip_literal_host {
        // one of the project's hosts is an IP literal (rule hosts, targets, example URLs and project domains alike)
        let j = serde_json::to_string(&case).unwrap().replace("other.net", "192.168.1.10");
        return serde_json::from_str(&j).unwrap();
    }
    case
}

fn record(ctx: &Ctx, case: &Case, report: &mut Report) {
    report.eval();
    match guarded(|| check(case)) {
        Err(panic) => report.library_panic(&panic),
        Ok(Err(m)) => {
            let j = serde_json::to_value(case).unwrap();
            if m.starts_with("[C19-F20]") {
                report.finding(ctx, "C19-F20", m, j);
            } else {
                report.violation("analysis-disagrees", m, j);
            }
        }
        Ok(Ok(stats)) => {
            report.count_n("analysis_pairs_compared", stats.analyses as u64);
            report.count_n("responses_compared_with_live_pipeline", stats.responses_compared as u64);
            report.count_n("redirect_chains_with_at_least_one_hop", stats.chains_with_hops as u64);
            if stats.change_changes_result {
                report.nontrivial(fnv_str(&serde_json::to_string(case).unwrap()));
            }
            report.count(&format!("impact_{}", case.impact_action));
            if report.want_sample() && stats.change_changes_result && case.base.len() <= 3 {
                report.sample(json!({
                    "base_rules": case.base.iter().map(|r| r.to_json()).collect::<Vec<_>>(),
                    "change_set": {"added": case.added.iter().map(|r| r.id.clone()).collect::<Vec<_>>(), "updated": case.updated.iter().map(|r| r.id.clone()).collect::<Vec<_>>(), "deleted": case.deleted},
                    "example": case.example, "max_hops": case.max_hops,
                }));
            }
        }
    }
}

pub fn run(ctx: &Ctx, _args: &Args) -> i32 {
    let started = Instant::now();
    let jobs = ctx.jobs;
    let n: u64 = ctx.tier.pick(60_000, 2_000_000);
    let report = run_sharded(jobs, |shard, report| {
        let mut rng = Rng::stream(ctx.seed, shard as u64);
        for _ in 0..(n / jobs as u64) {
            let case = random_case(&mut rng);
            record(ctx, &case, report);
        }
    });
    finish(
        ctx,
        report,
        "base rule sets B (<= 9 rules over 10 paths forming redirect chains and cycles, 301/302/307/308/404/410, relative and absolute targets incl. external domains, method / host / header triggers, response-code conditions, header and body filters with unit ids, log / reset / stop configuration units, examples with must_match / unit_ids_applied / methods / headers / ip / datetime / response codes), change-sets D (added / updated incl. absent ids / deleted), an analysed example, hop limits 0-6, project domains; per triple: unit-ids, test-examples, explain and impact (add/update/delete, with and without redirect analysis) computed from Arc<Router>(B)+D vs from scratch on apply(B,D) in sorted and permuted rule order (canonicalised: trace children sorted); reported responses vs the live pipeline driven by the harness in proxy order; redirect chains vs an independent follower. non-trivial = distinct triple whose change-set is non-empty and changes the explain result for the example",
        &["rules without sampling (random sampling is outside the comparison)", "<= 10 failing rules per analysis (first_ten_* maps are truncated by hash order beyond that)", "the url crate for joining redirect targets"],
        started,
        100,
    )
    .exit_code
}

pub fn replay(_ctx: &Ctx, case: &Value) -> i32 {
    let case: Case = match serde_json::from_value(case.clone()) {
        Ok(c) => c,
        Err(e) => {
            eprintln!("bad case: {e}");
            return 2;
        }
    };
    let failures = match guarded(|| check(&case)) {
        Err(p) => vec![format!("panic: {p}")],
        Ok(Err(m)) => vec![m],
        Ok(Ok(_)) => vec![],
    };
    super::replay_verdict("C19", failures)
}
