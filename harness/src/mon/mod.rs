//! One monitor per property.

use crate::report::{KnownFindings, Tier};
use serde_json::Value;
use std::path::PathBuf;

pub mod c01;
pub mod c02;
pub mod c03;
pub mod c04;
pub mod c05;
pub mod c06;
pub mod c07;
pub mod c08;
pub mod c09;
pub mod c10;
pub mod c11;
pub mod c12;
pub mod c13;
pub mod c14;
pub mod c15;
pub mod c16;
pub mod c17;
pub mod c19;

pub struct Args {
    pub tier: Tier,
    pub seed: u64,
    pub jobs: usize,
    pub verif_dir: PathBuf,
    pub known: KnownFindings,
    pub extra: Vec<String>,
}

#[allow(clippy::too_many_arguments)]
pub fn dispatch(
    property: &str,
    tier: Tier,
    seed: u64,
    jobs: usize,
    verif_dir: PathBuf,
    known: KnownFindings,
    replay: Option<String>,
    extra: Vec<String>,
) -> i32 {
    let args = Args {
        tier,
        seed,
        jobs,
        verif_dir,
        known,
        extra,
    };

    let replay_case: Option<Value> = match replay {
        None => None,
        Some(path) => match std::fs::read_to_string(&path).ok().and_then(|t| serde_json::from_str::<Value>(&t).ok()) {
            Some(doc) => Some(doc.get("case").cloned().unwrap_or(doc)),
            None => {
                eprintln!("cannot read replay file {path}");
                return 2;
            }
        },
    };

    macro_rules! route {
        ($id:literal, $m:ident) => {
            if property == $id {
                let ctx = crate::make_ctx($id, args.tier, args.seed, args.jobs, args.verif_dir.clone(), args.known.clone());
                return match replay_case {
                    Some(case) => $m::replay(&ctx, &case),
                    None => $m::run(&ctx, &args),
                };
            }
        };
    }

    route!("C01", c01);
    route!("C02", c02);
    route!("C03", c03);
    route!("C04", c04);
    route!("C05", c05);
    route!("C06", c06);
    route!("C07", c07);
    route!("C08", c08);
    route!("C09", c09);
    route!("C10", c10);
    route!("C11", c11);
    route!("C12", c12);
    route!("C13", c13);
    route!("C14", c14);
    route!("C15", c15);
    route!("C16", c16);
    route!("C17", c17);
    route!("C19", c19);

    if property == "DEBUG-SCAN" {
        // developer aid: rio-mon DEBUG-SCAN '<body text>'
        let body = args.extra.first().cloned().unwrap_or_default().into_bytes();
        let spans = crate::bodyfx::scan_spans(&body);
        for s in &spans {
            println!("{:?} {}..{} open_ended={} '{}'", s.kind, s.start, s.end, s.open_ended, crate::util::show(&body[s.start..s.end.min(body.len())]));
        }
        println!("scanner: {:?}", crate::bodyfx::scanner_boundaries(&body, &spans));
        println!("library: {:?}", crate::bodyfx::library_boundaries(&body));
        return 0;
    }

    eprintln!("unknown or not yet implemented property {property}");
    2
}

/// Shared replay epilogue: prints the verdict of a replayed case.
pub fn replay_verdict(property: &str, failures: Vec<String>) -> i32 {
    if failures.is_empty() {
        println!("replay: property {property} holds on this case with the current tree");
        0
    } else {
        for f in &failures {
            println!("replay: {}", crate::report::truncate(f, 2000));
        }
        println!("VIOLATION property={property} replay=(replayed case)");
        1
    }
}
