//! Small deterministic PRNG (splitmix64 seeding + xoshiro256**), independent of any crate version.

#[derive(Clone, Debug)]
pub struct Rng {
    s: [u64; 4],
}

fn splitmix(x: &mut u64) -> u64 {
    *x = x.wrapping_add(0x9E3779B97F4A7C15);
    let mut z = *x;
    z = (z ^ (z >> 30)).wrapping_mul(0xBF58476D1CE4E5B9);
    z = (z ^ (z >> 27)).wrapping_mul(0x94D049BB133111EB);
    z ^ (z >> 31)
}

impl Rng {
    pub fn new(seed: u64) -> Rng {
        let mut x = seed ^ 0xD1B54A32D192ED03;
        let s = [splitmix(&mut x), splitmix(&mut x), splitmix(&mut x), splitmix(&mut x)];
        Rng { s }
    }

    /// independent stream for (seed, stream)
    pub fn stream(seed: u64, stream: u64) -> Rng {
        Rng::new(seed.wrapping_mul(0x9E3779B97F4A7C15) ^ stream.wrapping_mul(0xC2B2AE3D27D4EB4F) ^ 0x165667B19E3779F9)
    }

    pub fn next_u64(&mut self) -> u64 {
        let r = self.s[1].wrapping_mul(5).rotate_left(7).wrapping_mul(9);
        let t = self.s[1] << 17;
        self.s[2] ^= self.s[0];
        self.s[3] ^= self.s[1];
        self.s[1] ^= self.s[2];
        self.s[0] ^= self.s[3];
        self.s[2] ^= t;
        self.s[3] = self.s[3].rotate_left(45);
        r
    }

    /// uniform in 0..n (n > 0)
    pub fn below(&mut self, n: usize) -> usize {
        debug_assert!(n > 0);
        (self.next_u64() % (n as u64)) as usize
    }

    /// uniform in lo..=hi
    pub fn range(&mut self, lo: usize, hi: usize) -> usize {
        lo + self.below(hi - lo + 1)
    }

    pub fn chance(&mut self, num: u32, den: u32) -> bool {
        (self.next_u64() % den as u64) < num as u64
    }

    pub fn coin(&mut self) -> bool {
        self.next_u64() & 1 == 1
    }

    pub fn pick<'a, T>(&mut self, items: &'a [T]) -> &'a T {
        &items[self.below(items.len())]
    }

    pub fn shuffle<T>(&mut self, items: &mut [T]) {
        for i in (1..items.len()).rev() {
            let j = self.below(i + 1);
            items.swap(i, j);
        }
    }

    pub fn byte(&mut self) -> u8 {
        (self.next_u64() & 0xff) as u8
    }
}

/// FNV-1a 64 bit, used for "distinct case" accounting
pub fn fnv(bytes: &[u8]) -> u64 {
    let mut h: u64 = 0xcbf29ce484222325;
    for b in bytes {
        h ^= *b as u64;
        h = h.wrapping_mul(0x100000001b3);
    }
    h
}

pub fn fnv_str(s: &str) -> u64 {
    fnv(s.as_bytes())
}

pub fn mix(a: u64, b: u64) -> u64 {
    let mut x = a ^ b.wrapping_mul(0x9E3779B97F4A7C15);
    splitmix(&mut x)
}
