//! Per-run accounting: evaluations, distinct non-trivial cases, observed states, violations,
//! known findings; evidence writer and the exit-code contract.

use serde_json::{json, Map, Value};
use std::collections::{BTreeMap, BTreeSet, HashSet};
use std::path::{Path, PathBuf};
use std::time::Instant;

#[derive(Clone, Copy, Debug, PartialEq, Eq)]
pub enum Tier {
    Quick,
    Thorough,
}

impl Tier {
    pub fn name(&self) -> &'static str {
        match self {
            Tier::Quick => "quick",
            Tier::Thorough => "thorough",
        }
    }

    /// pick a budget by tier
    pub fn pick<T>(&self, quick: T, thorough: T) -> T {
        match self {
            Tier::Quick => quick,
            Tier::Thorough => thorough,
        }
    }
}

#[derive(Clone, Debug)]
pub struct Ctx {
    pub property: &'static str,
    pub tier: Tier,
    pub seed: u64,
    pub jobs: usize,
    pub verif_dir: PathBuf,
    pub known: KnownFindings,
}

#[derive(Clone, Debug, Default)]
pub struct KnownFindings {
    /// finding id -> (status, what)
    entries: BTreeMap<String, (String, String)>,
}

impl KnownFindings {
    pub fn load(path: &Path) -> KnownFindings {
        let mut entries = BTreeMap::new();
        if let Ok(text) = std::fs::read_to_string(path) {
            if let Ok(value) = serde_json::from_str::<Value>(&text) {
                if let Some(list) = value.get("findings").and_then(|v| v.as_array()) {
                    for f in list {
                        let id = f.get("id").and_then(|v| v.as_str()).unwrap_or("").to_string();
                        let status = f.get("status").and_then(|v| v.as_str()).unwrap_or("").to_string();
                        let what = f.get("what").and_then(|v| v.as_str()).unwrap_or("").to_string();
                        if !id.is_empty() {
                            entries.insert(id, (status, what));
                        }
                    }
                }
            }
        }
        KnownFindings { entries }
    }

    /// true only for entries listed with status "known"; "fixed" entries suppress nothing
    pub fn is_known(&self, id: &str) -> bool {
        matches!(self.entries.get(id), Some((status, _)) if status == "known")
    }

    pub fn what(&self, id: &str) -> String {
        self.entries.get(id).map(|(_, w)| w.clone()).unwrap_or_default()
    }
}

#[derive(Clone, Debug)]
pub struct Violation {
    pub class: String,
    pub message: String,
    /// replayable case (monitor-specific JSON)
    pub case: Value,
}

/// Mergeable per-worker report
#[derive(Default, Debug)]
pub struct Report {
    pub evaluations: u64,
    pub nontrivial: HashSet<u64>,
    pub samples: Vec<Value>,
    pub violations: Vec<Violation>,
    pub violation_count: u64,
    /// finding id -> (count, first example)
    pub known: BTreeMap<String, (u64, Value)>,
    pub counters: BTreeMap<String, u64>,
    /// named sets of observed states (distinct strings)
    pub states: BTreeMap<String, BTreeSet<String>>,
    /// named hash sets (for large distinct counts)
    pub distinct: BTreeMap<String, HashSet<u64>>,
    pub inconclusive: Vec<String>,
    pub exhaustive: BTreeMap<String, Value>,
    pub notes: BTreeMap<String, Value>,
    pub library_panics: BTreeMap<String, u64>,
    /// non-trivial cases that are distinct by construction (exhaustive enumerations), counted not hashed
    pub nontrivial_by_construction: u64,
}

pub const MAX_SAMPLES: usize = 5;
pub const MAX_VIOLATIONS_KEPT: usize = 20;
pub const MAX_PER_CLASS: usize = 6;
pub const MAX_STATE_STRINGS: usize = 400;

impl Report {
    pub fn new() -> Report {
        Report::default()
    }

    pub fn eval(&mut self) {
        self.evaluations += 1;
    }

    pub fn evals(&mut self, n: u64) {
        self.evaluations += n;
    }

    pub fn nontrivial(&mut self, hash: u64) {
        // bounded memory: beyond the cap further cases are simply not counted (conservative)
        if self.nontrivial.len() < 3_000_000 {
            self.nontrivial.insert(hash);
        }
    }

    /// for enumerations whose cases are pairwise distinct by construction
    pub fn nontrivial_enumerated(&mut self) {
        self.nontrivial_by_construction += 1;
    }

    pub fn count(&mut self, name: &str) {
        *self.counters.entry(name.to_string()).or_insert(0) += 1;
    }

    pub fn count_n(&mut self, name: &str, n: u64) {
        *self.counters.entry(name.to_string()).or_insert(0) += n;
    }

    pub fn state(&mut self, set: &str, value: impl Into<String>) {
        let entry = self.states.entry(set.to_string()).or_default();
        if entry.len() < MAX_STATE_STRINGS * 4 {
            entry.insert(value.into());
        }
    }

    pub fn distinct(&mut self, set: &str, hash: u64) {
        self.distinct.entry(set.to_string()).or_default().insert(hash);
    }

    pub fn sample(&mut self, value: Value) {
        if self.samples.len() < MAX_SAMPLES {
            self.samples.push(value);
        }
    }

    pub fn want_sample(&self) -> bool {
        self.samples.len() < MAX_SAMPLES
    }

    pub fn violation(&mut self, class: &str, message: impl Into<String>, case: Value) {
        self.violation_count += 1;
        *self.counters.entry(format!("violation_class_{class}")).or_insert(0) += 1;
        // keep a few witnesses per class so that a frequent class cannot hide a rare one
        let same_class = self.violations.iter().filter(|v| v.class == class).count();
        if same_class < MAX_PER_CLASS && self.violations.len() < MAX_VIOLATIONS_KEPT * 4 {
            self.violations.push(Violation {
                class: class.to_string(),
                message: message.into(),
                case,
            });
        }
    }

    /// Record a failure that the monitor classified as finding `id`. It only counts as known when
    /// the committed known-findings file lists `id` with status "known"; otherwise it is a violation.
    pub fn finding(&mut self, ctx: &Ctx, id: &str, message: impl Into<String>, case: Value) {
        if ctx.known.is_known(id) {
            let entry = self.known.entry(id.to_string()).or_insert((0, Value::Null));
            entry.0 += 1;
            if entry.1.is_null() {
                entry.1 = case;
            }
        } else {
            self.violation(id, message, case);
        }
    }

    pub fn inconclusive(&mut self, what: impl Into<String>) {
        if self.inconclusive.len() < 50 {
            self.inconclusive.push(what.into());
        }
    }

    pub fn library_panic(&mut self, what: &str) {
        *self.library_panics.entry(what.to_string()).or_insert(0) += 1;
    }

    pub fn merge(&mut self, other: Report) {
        self.evaluations += other.evaluations;
        self.nontrivial.extend(other.nontrivial);
        self.nontrivial_by_construction += other.nontrivial_by_construction;
        for s in other.samples {
            self.sample(s);
        }
        self.violation_count += other.violation_count;
        for v in other.violations {
            let same_class = self.violations.iter().filter(|x| x.class == v.class).count();
            if same_class < MAX_PER_CLASS && self.violations.len() < MAX_VIOLATIONS_KEPT * 4 {
                self.violations.push(v);
            }
        }
        for (k, (n, ex)) in other.known {
            let entry = self.known.entry(k).or_insert((0, Value::Null));
            entry.0 += n;
            if entry.1.is_null() {
                entry.1 = ex;
            }
        }
        for (k, n) in other.counters {
            *self.counters.entry(k).or_insert(0) += n;
        }
        for (k, set) in other.states {
            self.states.entry(k).or_default().extend(set);
        }
        for (k, set) in other.distinct {
            self.distinct.entry(k).or_default().extend(set);
        }
        for i in other.inconclusive {
            self.inconclusive(i);
        }
        for (k, v) in other.exhaustive {
            self.exhaustive.insert(k, v);
        }
        for (k, v) in other.notes {
            self.notes.insert(k, v);
        }
        for (k, n) in other.library_panics {
            *self.library_panics.entry(k).or_insert(0) += n;
        }
    }
}

pub struct Outcome {
    pub exit_code: i32,
}

/// Writes evidence, prints KNOWN-FINDING / VIOLATION lines, returns the exit code.
pub fn finish(ctx: &Ctx, report: Report, rule: &str, assumptions: &[&str], started: Instant, min_nontrivial: u64) -> Outcome {
    let wall = started.elapsed().as_secs_f64();
    let replay_dir = ctx.verif_dir.join("replays");
    let _ = std::fs::create_dir_all(&replay_dir);

    let mut exit_code = 0;

    for (id, (count, example)) in &report.known {
        println!(
            "KNOWN-FINDING: property={} {} [{}] (observed {} times this run)",
            ctx.property,
            ctx.known.what(id),
            id,
            count
        );
        let _ = example;
    }

    for (n, violation) in report.violations.iter().enumerate() {
        let path = replay_dir.join(format!("{}-{}-{}{}-{}.json", ctx.property, ctx.tier.name(), ctx.seed, engine_suffix(), n));
        let doc = json!({
            "property": ctx.property,
            "engine": engine_name(),
            "tier": ctx.tier.name(),
            "seed": ctx.seed,
            "class": violation.class,
            "message": violation.message,
            "case": violation.case,
        });
        let _ = std::fs::write(&path, serde_json::to_string_pretty(&doc).unwrap_or_default());
        println!("VIOLATION property={} replay={}", ctx.property, path.display());
        println!("  class={} {}", violation.class, truncate(&violation.message, 600));
        exit_code = 1;
    }
    if report.violation_count > report.violations.len() as u64 {
        println!(
            "  ({} further violations of property {} not written out)",
            report.violation_count - report.violations.len() as u64,
            ctx.property
        );
    }

    let mut inconclusive = report.inconclusive.clone();
    let distinct_nontrivial = report.nontrivial.len() as u64 + report.nontrivial_by_construction;
    if distinct_nontrivial < min_nontrivial {
        inconclusive.push(format!(
            "only {} distinct non-trivial cases were observed (expected at least {}): coverage not claimed",
            distinct_nontrivial, min_nontrivial
        ));
    }

    let mut coverage = Map::new();
    coverage.insert("evaluations".into(), json!(report.evaluations));
    coverage.insert("distinct_nontrivial".into(), json!(distinct_nontrivial));
    coverage.insert("rule".into(), json!(rule));
    coverage.insert("samples".into(), Value::Array(report.samples.clone()));
    coverage.insert("counters".into(), json!(report.counters));
    let mut observed = Map::new();
    for (k, set) in &report.states {
        observed.insert(
            k.clone(),
            json!({
                "distinct": set.len(),
                "values": set.iter().take(MAX_STATE_STRINGS).collect::<Vec<_>>(),
            }),
        );
    }
    for (k, set) in &report.distinct {
        observed.insert(k.clone(), json!({ "distinct": set.len() }));
    }
    coverage.insert("observed_states".into(), Value::Object(observed));
    coverage.insert(
        "known_findings".into(),
        Value::Object(
            report
                .known
                .iter()
                .map(|(k, (n, ex))| (k.clone(), json!({"count": n, "example": ex})))
                .collect(),
        ),
    );
    coverage.insert("inconclusive".into(), json!(inconclusive));
    coverage.insert("library_panics_seen_by_this_monitor".into(), json!(report.library_panics));
    if !report.exhaustive.is_empty() {
        coverage.insert("exhaustive_subspaces".into(), json!(report.exhaustive));
        let all = report
            .exhaustive
            .values()
            .all(|v| v.get("complete").and_then(|c| c.as_bool()).unwrap_or(false));
        let _ = all;
    }
    for (k, v) in &report.notes {
        coverage.insert(k.clone(), v.clone());
    }

    let evidence = json!({
        "property_id": ctx.property,
        "tier": ctx.tier.name(),
        "seed": ctx.seed,
        "level": "exploration",
        "coverage": Value::Object(coverage),
        "assumptions": assumptions,
        "wall_s": wall,
        "violations": report.violation_count,
    });

    let evidence_dir = ctx.verif_dir.join("evidence");
    let _ = std::fs::create_dir_all(&evidence_dir);
    let evidence_path = evidence_dir.join(format!("{}{}.json", ctx.property, engine_suffix()));
    if let Err(e) = std::fs::write(&evidence_path, serde_json::to_string_pretty(&evidence).unwrap_or_default()) {
        eprintln!("cannot write evidence {}: {}", evidence_path.display(), e);
        return Outcome { exit_code: 2 };
    }

    println!(
        "{} {} seed={} evaluations={} distinct_nontrivial={} violations={} known_classes={} inconclusive={} wall={:.1}s",
        ctx.property,
        ctx.tier.name(),
        ctx.seed,
        report.evaluations,
        distinct_nontrivial,
        report.violation_count,
        report.known.len(),
        inconclusive.len(),
        wall
    );
    for (k, n) in &report.counters {
        println!("  counter {k} = {n}");
    }
    for (k, set) in &report.states {
        println!("  observed {k}: {} distinct", set.len());
    }
    for (k, set) in &report.distinct {
        println!("  observed {k}: {} distinct", set.len());
    }
    for i in &inconclusive {
        println!("  INCONCLUSIVE: {i}");
    }

    Outcome { exit_code }
}

/// Secondary engine builds of the same monitors (tools/engines/ovf.sh: the release profile with integer-overflow
/// checks) write their evidence and witnesses next to the primary ones; the engine script merges the summary.
fn engine_suffix() -> String {
    match std::env::var("VERIF_ENGINE").as_deref() {
        Ok("overflow-checks") => ".ovf".to_string(),
        _ => String::new(),
    }
}

fn engine_name() -> &'static str {
    match std::env::var("VERIF_ENGINE").as_deref() {
        Ok("overflow-checks") => "overflow-checks",
        _ => "release",
    }
}

pub fn truncate(s: &str, n: usize) -> String {
    if s.len() <= n {
        s.to_string()
    } else {
        let mut end = n;
        while !s.is_char_boundary(end) {
            end -= 1;
        }
        format!("{}…", &s[..end])
    }
}
