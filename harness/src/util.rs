//! Shared helpers: sharded execution, panic capture, hex, misc.

use crate::report::Report;
use std::cell::RefCell;
use std::panic::{catch_unwind, AssertUnwindSafe};
use std::sync::Once;

thread_local! {
    static LAST_PANIC: RefCell<Option<String>> = const { RefCell::new(None) };
}

static HOOK: Once = Once::new();

/// Install a panic hook that records `file:line: message` per thread instead of printing.
pub fn install_quiet_panic_hook() {
    HOOK.call_once(|| {
        std::panic::set_hook(Box::new(|info| {
            let location = info
                .location()
                .map(|l| format!("{}:{}", l.file(), l.line()))
                .unwrap_or_else(|| "?".to_string());
            let message = if let Some(s) = info.payload().downcast_ref::<&str>() {
                s.to_string()
            } else if let Some(s) = info.payload().downcast_ref::<String>() {
                s.clone()
            } else {
                "<non-string panic>".to_string()
            };
            LAST_PANIC.with(|p| *p.borrow_mut() = Some(format!("{location}: {message}")));
        }));
    });
}

/// Run `f`, returning Err(panic description) when it unwinds.
pub fn guarded<T>(f: impl FnOnce() -> T) -> Result<T, String> {
    match catch_unwind(AssertUnwindSafe(f)) {
        Ok(v) => Ok(v),
        Err(_) => Err(LAST_PANIC
            .with(|p| p.borrow_mut().take())
            .unwrap_or_else(|| "panic (no message)".to_string())),
    }
}

/// Statically shard `total` work items over `jobs` threads; `f(shard, items, report)` gets the
/// indices congruent to its shard. Reports are merged in shard order (deterministic).
pub fn run_sharded<F>(jobs: usize, f: F) -> Report
where
    F: Fn(usize, &mut Report) + Sync,
{
    let jobs = jobs.max(1);
    let mut reports: Vec<Report> = Vec::new();
    std::thread::scope(|scope| {
        let mut handles = Vec::new();
        for shard in 0..jobs {
            let f = &f;
            handles.push(
                std::thread::Builder::new()
                    .stack_size(64 * 1024 * 1024)
                    .spawn_scoped(scope, move || {
                        let mut report = Report::new();
                        f(shard, &mut report);
                        report
                    })
                    .expect("spawn worker"),
            );
        }
        for h in handles {
            match h.join() {
                Ok(r) => reports.push(r),
                Err(_) => {
                    let mut r = Report::new();
                    r.inconclusive("a worker thread of the harness died (harness error, not a verdict)");
                    reports.push(r);
                }
            }
        }
    });
    let mut merged = Report::new();
    for r in reports {
        merged.merge(r);
    }
    merged
}

pub fn hex(bytes: &[u8]) -> String {
    let mut s = String::with_capacity(bytes.len() * 2);
    for b in bytes {
        s.push_str(&format!("{b:02x}"));
    }
    s
}

pub fn unhex(s: &str) -> Vec<u8> {
    let bytes = s.as_bytes();
    let mut out = Vec::with_capacity(bytes.len() / 2);
    let mut i = 0;
    while i + 1 < bytes.len() {
        let hi = (bytes[i] as char).to_digit(16).unwrap_or(0) as u8;
        let lo = (bytes[i + 1] as char).to_digit(16).unwrap_or(0) as u8;
        out.push(hi << 4 | lo);
        i += 2;
    }
    out
}

/// printable rendering of bytes for witnesses (lossy, escaped)
pub fn show(bytes: &[u8]) -> String {
    let mut s = String::new();
    for &b in bytes {
        match b {
            b'\\' => s.push_str("\\\\"),
            0x20..=0x7e => s.push(b as char),
            b'\n' => s.push_str("\\n"),
            _ => s.push_str(&format!("\\x{b:02x}")),
        }
    }
    s
}

/// all permutations of 0..n (n small)
pub fn permutations(n: usize) -> Vec<Vec<usize>> {
    fn rec(cur: &mut Vec<usize>, used: &mut Vec<bool>, n: usize, out: &mut Vec<Vec<usize>>) {
        if cur.len() == n {
            out.push(cur.clone());
            return;
        }
        for i in 0..n {
            if !used[i] {
                used[i] = true;
                cur.push(i);
                rec(cur, used, n, out);
                cur.pop();
                used[i] = false;
            }
        }
    }
    let mut out = Vec::new();
    rec(&mut Vec::new(), &mut vec![false; n], n, &mut out);
    out
}

pub fn sorted<T: Ord>(mut v: Vec<T>) -> Vec<T> {
    v.sort();
    v
}

// ---------------------------------------------------------------------------------------------
// non-termination inside the code under test
//
// A monitor whose statement includes termination registers every input before handing it to the library.
// A monitor thread watches the slots; an input that keeps its worker busy for `trigger` of wall-clock time is
// only a *suspect* (the machine may be loaded): it is written out and replayed alone in a fresh process under
// a CPU-time limit (RLIMIT_CPU). CPU time, not wall-clock time, decides: death by SIGXCPU / SIGKILL is the
// verdict "does not terminate"; a replay that returns means the stall was load and the run goes on.

pub mod stall {
    use serde_json::Value;
    use std::sync::{Arc, Mutex};
    use std::time::{Duration, Instant};

    #[derive(Default)]
    struct Slot {
        tick: u64,
        busy: bool,
        bytes: Vec<u8>,
        meta: String,
    }

    pub struct Watch {
        slots: Vec<Mutex<Slot>>,
    }

    thread_local! {
        static SHARD: std::cell::Cell<usize> = const { std::cell::Cell::new(usize::MAX) };
    }

    /// CPU seconds granted to one input replayed alone (an input needs microseconds)
    pub const CPU_LIMIT_ALONE: u64 = 60;

    impl Watch {
        pub fn new(jobs: usize) -> Arc<Watch> {
            Arc::new(Watch {
                slots: (0..jobs.max(1)).map(|_| Mutex::new(Slot::default())).collect(),
            })
        }

        /// called once by each worker thread
        pub fn register(&self, shard: usize) {
            SHARD.with(|s| s.set(shard));
        }

        pub fn enter(&self, bytes: &[u8], meta: &str) {
            let shard = SHARD.with(|s| s.get());
            if let Some(slot) = self.slots.get(shard) {
                let mut s = slot.lock().unwrap();
                s.tick += 1;
                s.busy = true;
                s.bytes.clear();
                s.bytes.extend_from_slice(bytes);
                if s.meta != meta {
                    s.meta = meta.to_string();
                }
            }
        }

        pub fn leave(&self) {
            let shard = SHARD.with(|s| s.get());
            if let Some(slot) = self.slots.get(shard) {
                slot.lock().unwrap().busy = false;
            }
        }
    }

    pub enum Verdict {
        /// the replay died of its CPU-time limit
        NonTerminating { case: Value, replay_file: std::path::PathBuf },
    }

    /// Spawns the monitor thread. `make_case(bytes, meta)` builds the replay case of the monitor;
    /// `on_verdict` is called (once) from the monitor thread when an input is confirmed non-terminating and
    /// must not return (it reports and exits the process: the stuck worker can not be joined).
    pub fn spawn_monitor(
        watch: Arc<Watch>,
        property: &'static str,
        verif_dir: std::path::PathBuf,
        trigger: Duration,
        make_case: fn(&[u8], &str) -> Value,
        on_verdict: Box<dyn Fn(Verdict, Vec<String>) + Send>,
    ) {
        std::thread::spawn(move || {
            let n = watch.slots.len();
            let mut seen: Vec<(u64, Instant)> = (0..n).map(|_| (0, Instant::now())).collect();
            let mut notes: Vec<String> = Vec::new();
            loop {
                std::thread::sleep(Duration::from_millis(500));
                for i in 0..n {
                    let (tick, busy) = {
                        let s = watch.slots[i].lock().unwrap();
                        (s.tick, s.busy)
                    };
                    if !busy || tick != seen[i].0 {
                        seen[i] = (tick, Instant::now());
                        continue;
                    }
                    if seen[i].1.elapsed() < trigger {
                        continue;
                    }
                    // suspect: replay alone under a CPU-time limit
                    let (bytes, meta) = {
                        let s = watch.slots[i].lock().unwrap();
                        if s.tick != tick {
                            continue;
                        }
                        (s.bytes.clone(), s.meta.clone())
                    };
                    let case = make_case(&bytes, &meta);
                    let dir = verif_dir.join("replays");
                    let _ = std::fs::create_dir_all(&dir);
                    let file = dir.join(format!("{property}-stall-{i}.json"));
                    let _ = std::fs::write(&file, serde_json::to_string_pretty(&serde_json::json!({"property": property, "class": "non-termination", "case": case})).unwrap_or_default());
                    let exe = std::env::current_exe().unwrap_or_else(|_| "rio-mon".into());
                    let status = std::process::Command::new("sh")
                        .arg("-c")
                        .arg(format!("ulimit -t {CPU_LIMIT_ALONE}; exec \"$0\" \"$1\" --replay \"$2\" --verif-dir \"$3\" >/dev/null 2>&1"))
                        .arg(&exe)
                        .arg(property)
                        .arg(&file)
                        .arg(&verif_dir)
                        .status();
                    use std::os::unix::process::ExitStatusExt;
                    match status {
                        Ok(st) if matches!(st.signal(), Some(24) | Some(9)) => {
                            on_verdict(Verdict::NonTerminating { case, replay_file: file }, notes.clone());
                            return;
                        }
                        Ok(st) => {
                            notes.push(format!(
                                "worker {i} spent more than {:?} of wall-clock time on one input; replayed alone it returned ({st}): load, not a verdict",
                                trigger
                            ));
                            let _ = std::fs::remove_file(&file);
                            seen[i] = (tick, Instant::now());
                        }
                        Err(e) => {
                            notes.push(format!("worker {i} stalled but the replay could not be started ({e}): no verdict"));
                            seen[i] = (tick, Instant::now());
                        }
                    }
                }
            }
        });
    }
}
