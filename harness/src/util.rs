//! Shared helpers: sharded execution, panic capture, hex, misc.

use crate::report::Report;
use std::cell::RefCell;
use std::panic::{catch_unwind, AssertUnwindSafe};
use std::sync::Once;

thread_local! {
    static LAST_PANIC: RefCell<Option<String>> = const { RefCell::new(None) };
}

static HOOK: Once = Once::new();

/// Install a panic hook that records `file:line: message` per thread instead of printing.
pub fn install_quiet_panic_hook() {
    HOOK.call_once(|| {
        std::panic::set_hook(Box::new(|info| {
            let location = info
                .location()
                .map(|l| format!("{}:{}", l.file(), l.line()))
                .unwrap_or_else(|| "?".to_string());
            let message = if let Some(s) = info.payload().downcast_ref::<&str>() {
                s.to_string()
            } else if let Some(s) = info.payload().downcast_ref::<String>() {
                s.clone()
            } else {
                "<non-string panic>".to_string()
            };
            LAST_PANIC.with(|p| *p.borrow_mut() = Some(format!("{location}: {message}")));
        }));
    });
}

/// Run `f`, returning Err(panic description) when it unwinds.
pub fn guarded<T>(f: impl FnOnce() -> T) -> Result<T, String> {
    match catch_unwind(AssertUnwindSafe(f)) {
        Ok(v) => Ok(v),
        Err(_) => Err(LAST_PANIC
            .with(|p| p.borrow_mut().take())
            .unwrap_or_else(|| "panic (no message)".to_string())),
    }
}

/// Statically shard `total` work items over `jobs` threads; `f(shard, items, report)` gets the
/// indices congruent to its shard. Reports are merged in shard order (deterministic).
pub fn run_sharded<F>(jobs: usize, f: F) -> Report
where
    F: Fn(usize, &mut Report) + Sync,
{
    let jobs = jobs.max(1);
    let mut reports: Vec<Report> = Vec::new();
    std::thread::scope(|scope| {
        let mut handles = Vec::new();
        for shard in 0..jobs {
            let f = &f;
            handles.push(
                std::thread::Builder::new()
                    .stack_size(64 * 1024 * 1024)
                    .spawn_scoped(scope, move || {
                        let mut report = Report::new();
                        f(shard, &mut report);
                        report
                    })
                    .expect("spawn worker"),
            );
        }
        for h in handles {
            match h.join() {
                Ok(r) => reports.push(r),
                Err(_) => {
                    let mut r = Report::new();
                    r.inconclusive("a worker thread of the harness died (harness error, not a verdict)");
                    reports.push(r);
                }
            }
        }
    });
    let mut merged = Report::new();
    for r in reports {
        merged.merge(r);
    }
    merged
}

pub fn hex(bytes: &[u8]) -> String {
    let mut s = String::with_capacity(bytes.len() * 2);
    for b in bytes {
        s.push_str(&format!("{b:02x}"));
    }
    s
}

pub fn unhex(s: &str) -> Vec<u8> {
    let bytes = s.as_bytes();
    let mut out = Vec::with_capacity(bytes.len() / 2);
    let mut i = 0;
    while i + 1 < bytes.len() {
        let hi = (bytes[i] as char).to_digit(16).unwrap_or(0) as u8;
        let lo = (bytes[i + 1] as char).to_digit(16).unwrap_or(0) as u8;
        out.push(hi << 4 | lo);
        i += 2;
    }
    out
}

/// printable rendering of bytes for witnesses (lossy, escaped)
pub fn show(bytes: &[u8]) -> String {
    let mut s = String::new();
    for &b in bytes {
        match b {
            b'\\' => s.push_str("\\\\"),
            0x20..=0x7e => s.push(b as char),
            b'\n' => s.push_str("\\n"),
            _ => s.push_str(&format!("\\x{b:02x}")),
        }
    }
    s
}

/// all permutations of 0..n (n small)
pub fn permutations(n: usize) -> Vec<Vec<usize>> {
    fn rec(cur: &mut Vec<usize>, used: &mut Vec<bool>, n: usize, out: &mut Vec<Vec<usize>>) {
        if cur.len() == n {
            out.push(cur.clone());
            return;
        }
        for i in 0..n {
            if !used[i] {
                used[i] = true;
                cur.push(i);
                rec(cur, used, n, out);
                cur.pop();
                used[i] = false;
            }
        }
    }
    let mut out = Vec::new();
    rec(&mut Vec::new(), &mut vec![false; n], n, &mut out);
    out
}

pub fn sorted<T: Ord>(mut v: Vec<T>) -> Vec<T> {
    v.sort();
    v
}
