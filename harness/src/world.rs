pub fn placeholder() {}
