//! Shared "rule world": abstract rule / request specifications, their JSON form fed to the library,
//! the generators over deliberately tiny alphabets, and the flat reference predicate `sat`
//! (written from the statement of C01; it never calls the library's matchers, trees or `into_route`).

use crate::prng::Rng;
use chrono::{DateTime, Datelike, NaiveTime, Utc, Weekday};
use redirectionio::api::Rule;
use redirectionio::http::{PathAndQueryWithSkipped, Request};
use redirectionio::router::Router;
use redirectionio::RouterConfig;
use regex::{Regex, RegexBuilder};
use serde::{Deserialize, Serialize};
use serde_json::{json, Map, Value};
use std::net::IpAddr;
use std::str::FromStr;

// ---------------------------------------------------------------------------------------------
// configuration

#[derive(Clone, Debug, Serialize, Deserialize, PartialEq, Eq, Hash)]
pub struct Cfg {
    pub ignore_host_case: bool,
    pub ignore_header_case: bool,
    pub ignore_path_and_query_case: bool,
    pub ignore_marketing_query_params: bool,
    pub pass_marketing_query_params_to_target: bool,
    pub always_match_any_host: bool,
    pub marketing_query_params: Vec<String>,
}

impl Cfg {
    pub fn plain() -> Cfg {
        Cfg {
            ignore_host_case: false,
            ignore_header_case: false,
            ignore_path_and_query_case: false,
            ignore_marketing_query_params: true,
            pass_marketing_query_params_to_target: true,
            always_match_any_host: false,
            marketing_query_params: vec!["utm_source".into(), "utm_medium".into(), "utm_campaign".into()],
        }
    }

    pub fn to_json(&self) -> Value {
        json!({
            "ignore_host_case": self.ignore_host_case,
            "ignore_header_case": self.ignore_header_case,
            "ignore_path_and_query_case": self.ignore_path_and_query_case,
            "ignore_marketing_query_params": self.ignore_marketing_query_params,
            "pass_marketing_query_params_to_target": self.pass_marketing_query_params_to_target,
            "always_match_any_host": self.always_match_any_host,
            "marketing_query_params": self.marketing_query_params,
        })
    }

    pub fn build(&self) -> RouterConfig {
        serde_json::from_value(self.to_json()).expect("router config json")
    }

    /// flags relevant for matching, from 6 bits
    pub fn from_bits(bits: u32) -> Cfg {
        let mut c = Cfg::plain();
        c.ignore_host_case = bits & 1 != 0;
        c.ignore_header_case = bits & 2 != 0;
        c.ignore_path_and_query_case = bits & 4 != 0;
        c.always_match_any_host = bits & 8 != 0;
        c.ignore_marketing_query_params = bits & 16 != 0;
        c.pass_marketing_query_params_to_target = bits & 32 != 0;
        c
    }

    pub fn random(rng: &mut Rng) -> Cfg {
        Cfg::from_bits(rng.below(64) as u32)
    }
}

// ---------------------------------------------------------------------------------------------
// templates with markers

#[derive(Clone, Debug, Serialize, Deserialize, PartialEq, Eq)]
pub struct MarkerSpec {
    pub name: String,
    pub regex: String,
    #[serde(default)]
    pub transformers: Vec<Value>,
}

#[derive(Clone, Debug, Serialize, Deserialize, PartialEq, Eq)]
pub enum Piece {
    Lit(String),
    /// reference to a marker by name
    Mark(String),
}

#[derive(Clone, Debug, Serialize, Deserialize, PartialEq, Eq)]
pub struct Template {
    pub pieces: Vec<Piece>,
}

impl Template {
    pub fn lit(s: &str) -> Template {
        Template {
            pieces: vec![Piece::Lit(s.to_string())],
        }
    }

    pub fn parse(s: &str) -> Template {
        // "@name" where name is [A-Za-z0-9_]+ ; used only for harness-side literals
        let mut pieces = Vec::new();
        let mut cur = String::new();
        let chars: Vec<char> = s.chars().collect();
        let mut i = 0;
        while i < chars.len() {
            if chars[i] == '@' {
                let mut j = i + 1;
                let mut name = String::new();
                while j < chars.len() && (chars[j].is_ascii_alphanumeric() || chars[j] == '_') {
                    name.push(chars[j]);
                    j += 1;
                }
                if !name.is_empty() {
                    if !cur.is_empty() {
                        pieces.push(Piece::Lit(std::mem::take(&mut cur)));
                    }
                    pieces.push(Piece::Mark(name));
                    i = j;
                    continue;
                }
            }
            cur.push(chars[i]);
            i += 1;
        }
        if !cur.is_empty() {
            pieces.push(Piece::Lit(cur));
        }
        Template { pieces }
    }

    pub fn text(&self) -> String {
        let mut s = String::new();
        for p in &self.pieces {
            match p {
                Piece::Lit(l) => s.push_str(l),
                Piece::Mark(m) => {
                    s.push('@');
                    s.push_str(m);
                }
            }
        }
        s
    }

    pub fn has_marker(&self) -> bool {
        self.pieces.iter().any(|p| matches!(p, Piece::Mark(_)))
    }

    pub fn marker_names(&self) -> Vec<String> {
        self.pieces
            .iter()
            .filter_map(|p| match p {
                Piece::Mark(m) => Some(m.clone()),
                _ => None,
            })
            .collect()
    }

    /// model-side regex source: escaped literals + (?:marker regex); `encode` maps a literal to the
    /// form the library stores (identity for hosts/headers, URL sanitising for paths)
    pub fn regex_source(&self, markers: &[MarkerSpec], encode: &dyn Fn(&str) -> String) -> String {
        let mut s = String::new();
        for p in &self.pieces {
            match p {
                Piece::Lit(l) => s.push_str(&regex::escape(&encode(l))),
                Piece::Mark(m) => {
                    let re = markers.iter().find(|k| k.name == *m).map(|k| k.regex.as_str()).unwrap_or("");
                    s.push_str("(?:");
                    s.push_str(re);
                    s.push(')');
                }
            }
        }
        s
    }
}

// ---------------------------------------------------------------------------------------------
// rule specification

#[derive(Clone, Debug, Serialize, Deserialize, PartialEq, Eq)]
pub enum IpSpec {
    In(String),
    NotIn(String),
}

#[derive(Clone, Debug, Serialize, Deserialize, PartialEq, Eq)]
pub struct HeaderCond {
    pub name: String,
    pub kind: String,
    pub value: Option<Template>,
}

#[derive(Clone, Debug, Serialize, Deserialize, PartialEq, Eq, Default)]
pub struct Effects {
    pub status_code: Option<u16>,
    pub target: Option<String>,
    pub response_status_codes: Option<Vec<u16>>,
    /// presence-encoded (None = absent, Some(true) = exclusion)
    pub exclude_response_status_codes: Option<bool>,
    /// (action, header, value)
    pub header_filters: Vec<(String, String, String)>,
    /// emit unit ids on the header filters ("id": "u-<rule>-h<i>", "target_hash": "hdr-<lower-case name>"),
    /// so that the unit-trace branches of the header actions run in the analyses
    #[serde(default)]
    pub header_filter_units: bool,
    /// raw BodyFilter JSON objects
    pub body_filters: Vec<Value>,
    pub log_override: Option<bool>,
    pub reset: Option<bool>,
    pub stop: Option<bool>,
    pub sampling: Option<u32>,
    pub redirect_unit_id: Option<String>,
    pub configuration_log_unit_id: Option<String>,
    pub configuration_reset_unit_id: Option<String>,
    pub variables: Vec<Value>,
    pub examples: Option<Vec<Value>>,
}

#[derive(Clone, Debug, Serialize, Deserialize, PartialEq, Eq)]
pub struct RuleSpec {
    pub id: String,
    pub rank: u16,
    pub scheme: Option<String>,
    pub host: Option<Template>,
    pub ips: Option<Vec<IpSpec>>,
    pub methods: Option<Vec<String>>,
    pub exclude_methods: Option<bool>,
    pub headers: Vec<HeaderCond>,
    /// (start, end) RFC 3339 strings
    pub datetime: Option<Vec<(Option<String>, Option<String>)>>,
    /// (start, end) HH:MM:SS strings
    pub time: Option<Vec<(Option<String>, Option<String>)>>,
    pub weekdays: Option<Vec<String>>,
    /// path template, may contain a query part after '?'
    pub path: Template,
    pub markers: Vec<MarkerSpec>,
    pub effects: Effects,
    /// a rule given as raw JSON (harvested from the repository's fixtures): `to_json` returns it with `id`
    /// replaced by `self.id`; the flat reference predicate does not know such rules (differential relations only)
    #[serde(default)]
    pub raw: Option<Value>,
}

impl RuleSpec {
    pub fn from_raw(id: &str, raw: &Value) -> RuleSpec {
        let mut r = RuleSpec::simple(id, "/");
        r.rank = raw.get("rank").and_then(|v| v.as_u64()).unwrap_or(0) as u16;
        r.effects = Effects::default();
        r.raw = Some(raw.clone());
        r
    }

    pub fn simple(id: &str, path: &str) -> RuleSpec {
        RuleSpec {
            raw: None,
            id: id.to_string(),
            rank: 0,
            scheme: None,
            host: None,
            ips: None,
            methods: None,
            exclude_methods: None,
            headers: Vec::new(),
            datetime: None,
            time: None,
            weekdays: None,
            path: Template::parse(path),
            markers: Vec::new(),
            effects: Effects {
                status_code: Some(301),
                target: Some(format!("/target-of-{id}")),
                ..Effects::default()
            },
        }
    }

    pub fn to_json(&self) -> Value {
        if let Some(raw) = &self.raw {
            let mut v = raw.clone();
            v["id"] = json!(self.id);
            return v;
        }
        let full = self.path.text();
        let (path, query) = match full.find('?') {
            Some(i) => (full[..i].to_string(), Some(full[i + 1..].to_string())),
            None => (full.clone(), None),
        };
        let mut source = Map::new();
        source.insert("path".into(), json!(path));
        if let Some(q) = query {
            source.insert("query".into(), json!(q));
        }
        if let Some(s) = &self.scheme {
            source.insert("scheme".into(), json!(s));
        }
        if let Some(h) = &self.host {
            source.insert("host".into(), json!(h.text()));
        }
        if let Some(ips) = &self.ips {
            source.insert(
                "ips".into(),
                Value::Array(
                    ips.iter()
                        .map(|ip| match ip {
                            IpSpec::In(c) => json!({"in_range": c}),
                            IpSpec::NotIn(c) => json!({"not_in_range": c}),
                        })
                        .collect(),
                ),
            );
        }
        if let Some(m) = &self.methods {
            source.insert("methods".into(), json!(m));
        }
        if let Some(e) = &self.exclude_methods {
            source.insert("exclude_methods".into(), json!(e));
        }
        if !self.headers.is_empty() {
            source.insert(
                "headers".into(),
                Value::Array(
                    self.headers
                        .iter()
                        .map(|h| json!({"type": h.kind, "name": h.name, "value": h.value.as_ref().map(|v| v.text())}))
                        .collect(),
                ),
            );
        }
        if let Some(d) = &self.datetime {
            source.insert("datetime".into(), json!(d.iter().map(|(a, b)| json!([a, b])).collect::<Vec<_>>()));
        }
        if let Some(t) = &self.time {
            source.insert("time".into(), json!(t.iter().map(|(a, b)| json!([a, b])).collect::<Vec<_>>()));
        }
        if let Some(w) = &self.weekdays {
            source.insert("weekdays".into(), json!(w));
        }
        let e = &self.effects;
        if let Some(c) = &e.response_status_codes {
            source.insert("response_status_codes".into(), json!(c));
        }
        if let Some(x) = &e.exclude_response_status_codes {
            source.insert("exclude_response_status_codes".into(), json!(x));
        }
        if let Some(s) = &e.sampling {
            source.insert("sampling".into(), json!(s));
        }

        let mut rule = Map::new();
        rule.insert("id".into(), json!(self.id));
        rule.insert("rank".into(), json!(self.rank));
        rule.insert("source".into(), Value::Object(source));
        if let Some(t) = &e.target {
            rule.insert("target".into(), json!(t));
        }
        if let Some(s) = &e.status_code {
            rule.insert("status_code".into(), json!(s));
        }
        if !self.markers.is_empty() {
            rule.insert(
                "markers".into(),
                Value::Array(
                    self.markers
                        .iter()
                        .map(|m| json!({"name": m.name, "regex": m.regex, "transformers": m.transformers}))
                        .collect(),
                ),
            );
        }
        if !e.variables.is_empty() {
            rule.insert("variables".into(), json!(e.variables));
        }
        if !e.header_filters.is_empty() {
            rule.insert(
                "header_filters".into(),
                Value::Array(
                    e.header_filters
                        .iter()
                        .enumerate()
                        .map(|(i, (a, h, v))| {
                            if e.header_filter_units {
                                json!({"action": a, "header": h, "value": v, "id": format!("u-{}-h{i}", self.id), "target_hash": format!("hdr-{}", h.to_lowercase())})
                            } else {
                                json!({"action": a, "header": h, "value": v})
                            }
                        })
                        .collect(),
                ),
            );
        }
        if !e.body_filters.is_empty() {
            rule.insert("body_filters".into(), json!(e.body_filters));
        }
        if let Some(l) = &e.log_override {
            rule.insert("log_override".into(), json!(l));
        }
        if let Some(r) = &e.reset {
            rule.insert("reset".into(), json!(r));
        }
        if let Some(s) = &e.stop {
            rule.insert("stop".into(), json!(s));
        }
        if let Some(u) = &e.redirect_unit_id {
            rule.insert("redirect_unit_id".into(), json!(u));
        }
        if let Some(u) = &e.configuration_log_unit_id {
            rule.insert("configuration_log_unit_id".into(), json!(u));
        }
        if let Some(u) = &e.configuration_reset_unit_id {
            rule.insert("configuration_reset_unit_id".into(), json!(u));
        }
        if let Some(ex) = &e.examples {
            rule.insert("examples".into(), json!(ex));
        }
        Value::Object(rule)
    }

    /// the production path: JSON text -> Rule
    pub fn to_rule(&self) -> Rule {
        let text = serde_json::to_string(&self.to_json()).expect("rule json");
        serde_json::from_str::<Rule>(&text).unwrap_or_else(|e| panic!("harness bug: generated rule does not deserialise: {e}: {text}"))
    }
}

// ---------------------------------------------------------------------------------------------
// request specification

#[derive(Clone, Debug, Serialize, Deserialize, PartialEq, Eq, Hash)]
pub struct ReqSpec {
    pub url: String,
    pub host: Option<String>,
    pub scheme: Option<String>,
    pub method: Option<String>,
    pub ip: Option<String>,
    pub headers: Vec<(String, String)>,
    /// RFC 3339
    pub created_at: Option<String>,
    pub sampling_override: Option<bool>,
}

impl ReqSpec {
    pub fn get(url: &str) -> ReqSpec {
        ReqSpec {
            url: url.to_string(),
            host: None,
            scheme: None,
            method: None,
            ip: None,
            headers: Vec::new(),
            created_at: None,
            sampling_override: None,
        }
    }

    /// Build the request exactly as the generated fixtures and the agent do (un-normalised).
    pub fn build_raw(&self) -> Request {
        let default_config = RouterConfig::default();
        let mut request = Request::new(
            PathAndQueryWithSkipped::from_config(&default_config, self.url.as_str()),
            self.url.clone(),
            self.host.clone(),
            self.scheme.clone(),
            self.method.clone(),
            self.ip.as_ref().and_then(|ip| IpAddr::from_str(ip).ok()),
            self.sampling_override,
        );
        for (n, v) in &self.headers {
            request.add_header(n.clone(), v.clone(), false);
        }
        request.created_at = self.created_at.as_ref().and_then(|s| s.parse::<DateTime<Utc>>().ok());
        request
    }

    /// raw request, then normalised for the router's configuration
    pub fn build(&self, config: &RouterConfig) -> Request {
        Request::rebuild_with_config(config, &self.build_raw())
    }
}

// ---------------------------------------------------------------------------------------------
// world = config + rules

#[derive(Clone, Debug, Serialize, Deserialize)]
pub struct World {
    pub cfg: Cfg,
    pub rules: Vec<RuleSpec>,
}

impl World {
    pub fn router(&self) -> Router<Rule> {
        let mut router = Router::<Rule>::from_config(self.cfg.build());
        for r in &self.rules {
            router.insert(r.to_rule());
        }
        router
    }
}

pub fn ids_of(routes: &[std::sync::Arc<redirectionio::router::Route<Rule>>]) -> Vec<String> {
    let mut ids: Vec<String> = routes.iter().map(|r| r.id().to_string()).collect();
    ids.sort();
    ids
}

// ---------------------------------------------------------------------------------------------
// the flat reference predicate

pub fn sanitize_path_literal(s: &str) -> String {
    // percent-encode exactly: controls, space, '"', '#', '<', '>' and non-ASCII (harness-side, independent)
    let mut out = String::new();
    for b in s.bytes() {
        let enc = b < 0x20 || b == 0x7f || b >= 0x80 || matches!(b, b' ' | b'"' | b'#' | b'<' | b'>');
        if enc {
            out.push_str(&format!("%{b:02X}"));
        } else {
            out.push(b as char);
        }
    }
    out
}

/// a rule prepared for the model: regexes compiled once
pub struct ModelRule {
    pub spec: RuleSpec,
    host_re_cs: Option<Regex>,
    host_re_ci: Option<Regex>,
    path_re_cs: Option<Regex>,
    path_re_ci: Option<Regex>,
    /// per header condition (only match_regex): (case-sensitive, case-insensitive) unanchored regex
    header_res: Vec<Option<(Regex, Regex)>>,
    ips: Option<Vec<(bool, cidr::AnyIpCidr)>>,
    datetime: Option<Vec<(Option<DateTime<Utc>>, Option<DateTime<Utc>>)>>,
    time: Option<Vec<(Option<NaiveTime>, Option<NaiveTime>)>>,
    weekdays: Option<Vec<Weekday>>,
}

fn build_re(src: &str, anchored: bool, ci: bool) -> Option<Regex> {
    let full = if anchored { format!("^(?:{src})$") } else { src.to_string() };
    RegexBuilder::new(&full).case_insensitive(ci).build().ok()
}

impl ModelRule {
    pub fn new(spec: &RuleSpec) -> ModelRule {
        let ident = |s: &str| s.to_string();
        let (host_re_cs, host_re_ci) = match &spec.host {
            Some(t) if t.has_marker() => {
                let src = t.regex_source(&spec.markers, &ident);
                (build_re(&src, true, false), build_re(&src, true, true))
            }
            _ => (None, None),
        };
        let (path_re_cs, path_re_ci) = if spec.path.has_marker() {
            let src = spec.path.regex_source(&spec.markers, &|l| sanitize_path_literal(l));
            (build_re(&src, true, false), build_re(&src, true, true))
        } else {
            (None, None)
        };
        let header_res = spec
            .headers
            .iter()
            .map(|h| {
                if h.kind == "match_regex" {
                    h.value.as_ref().filter(|t| t.has_marker()).and_then(|t| {
                        let src = t.regex_source(&spec.markers, &ident);
                        match (build_re(&src, false, false), build_re(&src, false, true)) {
                            (Some(a), Some(b)) => Some((a, b)),
                            _ => None,
                        }
                    })
                } else {
                    None
                }
            })
            .collect();
        let ips = spec.ips.as_ref().and_then(|list| {
            let parsed: Vec<(bool, cidr::AnyIpCidr)> = list
                .iter()
                .filter_map(|ip| match ip {
                    IpSpec::In(c) => c.parse::<cidr::AnyIpCidr>().ok().map(|c| (true, c)),
                    IpSpec::NotIn(c) => c.parse::<cidr::AnyIpCidr>().ok().map(|c| (false, c)),
                })
                .collect();
            if parsed.is_empty() {
                None
            } else {
                Some(parsed)
            }
        });
        let datetime = spec.datetime.as_ref().and_then(|l| {
            if l.is_empty() {
                None
            } else {
                Some(
                    l.iter()
                        .map(|(a, b)| {
                            (
                                a.as_ref().and_then(|s| s.parse::<DateTime<Utc>>().ok()),
                                b.as_ref().and_then(|s| s.parse::<DateTime<Utc>>().ok()),
                            )
                        })
                        .collect(),
                )
            }
        });
        let time = spec.time.as_ref().and_then(|l| {
            if l.is_empty() {
                None
            } else {
                Some(
                    l.iter()
                        .map(|(a, b)| {
                            (
                                a.as_ref().and_then(|s| s.parse::<NaiveTime>().ok()),
                                b.as_ref().and_then(|s| s.parse::<NaiveTime>().ok()),
                            )
                        })
                        .collect(),
                )
            }
        });
        let weekdays = spec.weekdays.as_ref().and_then(|l| {
            let days: Vec<Weekday> = l.iter().filter_map(|d| d.parse::<Weekday>().ok()).collect();
            if days.is_empty() {
                None
            } else {
                Some(days)
            }
        });
        ModelRule {
            spec: spec.clone(),
            host_re_cs,
            host_re_ci,
            path_re_cs,
            path_re_ci,
            header_res,
            ips,
            datetime,
            time,
            weekdays,
        }
    }

    pub fn is_any_host(&self) -> bool {
        match &self.spec.host {
            None => true,
            Some(t) => t.text().is_empty(),
        }
    }

    /// None = any-scheme scope, Some(s) = scope of scheme s
    pub fn scheme_scope(&self) -> Option<&str> {
        match &self.spec.scheme {
            None => None,
            Some(s) if s.is_empty() => None,
            Some(s) => Some(s.as_str()),
        }
    }

    pub fn sat_scheme(&self, q: &ReqSpec) -> bool {
        match self.scheme_scope() {
            None => true,
            Some(s) => q.scheme.as_deref() == Some(s),
        }
    }

    pub fn sat_host(&self, q: &ReqSpec, cfg: &Cfg) -> bool {
        if self.is_any_host() {
            return true;
        }
        let host = match &q.host {
            None => return false,
            Some(h) => h,
        };
        let t = self.spec.host.as_ref().unwrap();
        if t.has_marker() {
            let re = if cfg.ignore_host_case { &self.host_re_ci } else { &self.host_re_cs };
            match re {
                Some(re) => re.is_match(host),
                None => false,
            }
        } else if cfg.ignore_host_case {
            t.text().to_lowercase() == host.to_lowercase()
        } else {
            t.text() == *host
        }
    }

    /// number of satisfied ip constraints, None when the rule has no constraint
    pub fn ip_hits(&self, q: &ReqSpec) -> Option<usize> {
        let ips = self.ips.as_ref()?;
        let addr = match q.ip.as_ref().and_then(|s| IpAddr::from_str(s).ok()) {
            None => return Some(0),
            Some(a) => a,
        };
        Some(ips.iter().filter(|(inside, c)| c.contains(&addr) == *inside).count())
    }

    pub fn sat_ip(&self, q: &ReqSpec) -> bool {
        match self.ip_hits(q) {
            None => true,
            Some(n) => n > 0,
        }
    }

    pub fn sat_method(&self, q: &ReqSpec) -> bool {
        let method = q.method.as_deref().unwrap_or("GET");
        match &self.spec.methods {
            None => true,
            Some(list) if list.is_empty() => true,
            Some(list) => {
                let member = list.iter().any(|m| m == method);
                if self.spec.exclude_methods.is_some() {
                    !member
                } else {
                    member
                }
            }
        }
    }

    /// `regex_follows_flag`: whether match_regex conditions are case-insensitive under ignore_header_case
    /// (the meaning of the flag) or always case-sensitive on the lower-cased value (what the code did)
    pub fn sat_headers(&self, q: &ReqSpec, cfg: &Cfg, regex_follows_flag: bool) -> bool {
        let ic = cfg.ignore_header_case;
        let norm = |s: &str| if ic { s.to_lowercase() } else { s.to_string() };
        for (i, h) in self.spec.headers.iter().enumerate() {
            let values: Vec<String> = q
                .headers
                .iter()
                .filter(|(n, _)| n.to_lowercase() == h.name.to_lowercase())
                .map(|(_, v)| norm(v))
                .collect();
            let wanted = h.value.as_ref().map(|t| norm(&t.text()));
            let ok = match (h.kind.as_str(), &wanted) {
                ("is_defined", _) => !values.is_empty(),
                ("is_not_defined", _) => values.is_empty(),
                ("is_equals", Some(w)) => values.iter().any(|v| v == w),
                ("is_not_equal_to", Some(w)) => values.iter().all(|v| v != w),
                ("contains", Some(w)) => values.iter().any(|v| v.contains(w.as_str())),
                ("does_not_contain", Some(w)) => values.iter().all(|v| !v.contains(w.as_str())),
                ("ends_with", Some(w)) => values.iter().any(|v| v.ends_with(w.as_str())),
                ("starts_with", Some(w)) => values.iter().any(|v| v.starts_with(w.as_str())),
                ("match_regex", Some(_)) => match &self.header_res[i] {
                    // a match_regex value without marker reference yields no condition at all
                    None => true,
                    Some((cs, ci)) => {
                        let re = if ic && regex_follows_flag { ci } else { cs };
                        values.iter().any(|v| re.is_match(v))
                    }
                },
                // unknown kinds and value-less comparisons are skipped by the rule loader
                _ => true,
            };
            if !ok {
                return false;
            }
        }
        true
    }

    pub fn has_time_constraint(&self) -> bool {
        self.datetime.is_some() || self.time.is_some() || self.weekdays.is_some()
    }

    pub fn sat_datetime(&self, q: &ReqSpec) -> bool {
        if !self.has_time_constraint() {
            return true;
        }
        let at = match q.created_at.as_ref().and_then(|s| s.parse::<DateTime<Utc>>().ok()) {
            None => return false,
            Some(t) => t,
        };
        if let Some(ranges) = &self.datetime {
            let ok = ranges.iter().any(|(a, b)| a.map(|a| at >= a).unwrap_or(true) && b.map(|b| at < b).unwrap_or(true));
            if !ok {
                return false;
            }
        }
        if let Some(ranges) = &self.time {
            let t = at.naive_utc().time();
            let ok = ranges.iter().any(|(a, b)| a.map(|a| t >= a).unwrap_or(true) && b.map(|b| t < b).unwrap_or(true));
            if !ok {
                return false;
            }
        }
        if let Some(days) = &self.weekdays {
            if !days.contains(&at.weekday()) {
                return false;
            }
        }
        true
    }

    pub fn sat_path(&self, q: &ReqSpec, cfg: &Cfg) -> bool {
        // requests of this world use normalisation-stable URLs: the matching form is the sanitised URL
        let url = sanitize_path_literal(&q.url);
        if self.spec.path.has_marker() {
            let re = if cfg.ignore_path_and_query_case { &self.path_re_ci } else { &self.path_re_cs };
            let hay = if cfg.ignore_path_and_query_case { url.to_lowercase() } else { url };
            match re {
                Some(re) => re.is_match(&hay),
                None => false,
            }
        } else {
            let rule_path = sanitize_path_literal(&self.spec.path.text());
            if cfg.ignore_path_and_query_case {
                rule_path.to_lowercase() == url.to_lowercase()
            } else {
                rule_path == url
            }
        }
    }

    pub fn sat_all_but_host(&self, q: &ReqSpec, cfg: &Cfg, regex_follows_flag: bool) -> bool {
        self.sat_scheme(q)
            && self.sat_ip(q)
            && self.sat_method(q)
            && self.sat_headers(q, cfg, regex_follows_flag)
            && self.sat_datetime(q)
            && self.sat_path(q, cfg)
    }

    /// name of the first trigger rejecting the request (coverage accounting)
    pub fn first_rejecting_trigger(&self, q: &ReqSpec, cfg: &Cfg) -> Option<&'static str> {
        if !self.sat_scheme(q) {
            return Some("scheme");
        }
        if !self.sat_host(q, cfg) {
            return Some("host");
        }
        if !self.sat_ip(q) {
            return Some("ip");
        }
        if !self.sat_method(q) {
            return Some("method");
        }
        if !self.sat_headers(q, cfg, true) {
            return Some("headers");
        }
        if !self.sat_datetime(q) {
            return Some("datetime");
        }
        if !self.sat_path(q, cfg) {
            return Some("path");
        }
        None
    }
}

pub struct Model {
    pub cfg: Cfg,
    pub rules: Vec<ModelRule>,
}

#[derive(Default, Debug)]
pub struct ModelTrace {
    pub any_host_fallback_taken: u32,
    pub any_host_fallback_suppressed: u32,
}

impl Model {
    pub fn new(cfg: &Cfg, rules: &[RuleSpec]) -> Model {
        Model {
            cfg: cfg.clone(),
            rules: rules.iter().map(ModelRule::new).collect(),
        }
    }

    /// set of ids (sorted) expected from match_request, per the statement of C01
    pub fn expected(&self, q: &ReqSpec, regex_follows_flag: bool, trace: &mut ModelTrace) -> Vec<String> {
        let mut out: Vec<String> = Vec::new();
        // scopes: any-scheme, and the request's scheme
        let mut scopes: Vec<Option<String>> = vec![None];
        if let Some(s) = &q.scheme {
            if !s.is_empty() {
                scopes.push(Some(s.clone()));
            }
        }
        for scope in scopes {
            let in_scope: Vec<&ModelRule> = self
                .rules
                .iter()
                .filter(|r| r.scheme_scope().map(|s| s.to_string()) == scope)
                .collect();
            let host_bound: Vec<&ModelRule> = in_scope
                .iter()
                .copied()
                .filter(|r| !r.is_any_host() && r.sat_host(q, &self.cfg) && r.sat_all_but_host(q, &self.cfg, regex_follows_flag))
                .collect();
            let any_host: Vec<&ModelRule> = in_scope
                .iter()
                .copied()
                .filter(|r| r.is_any_host() && r.sat_all_but_host(q, &self.cfg, regex_follows_flag))
                .collect();
            for r in &host_bound {
                out.push(r.spec.id.clone());
            }
            if self.cfg.always_match_any_host || host_bound.is_empty() {
                if !any_host.is_empty() && !self.cfg.always_match_any_host {
                    trace.any_host_fallback_taken += 1;
                }
                for r in &any_host {
                    out.push(r.spec.id.clone());
                }
            } else if !any_host.is_empty() {
                trace.any_host_fallback_suppressed += 1;
            }
        }
        out.sort();
        out
    }
}

// ---------------------------------------------------------------------------------------------
// pools (deliberately tiny, so that buckets, prefixes and boundary values collide often)

pub const T1: &str = "2024-01-10T12:00:00Z"; // Wednesday
pub const T2: &str = "2024-01-11T12:00:00Z"; // Thursday
pub const T3: &str = "2024-01-13T00:00:00Z"; // Saturday

pub fn request_instants() -> Vec<Option<String>> {
    vec![
        None,
        Some("2024-01-10T11:59:59Z".into()),
        Some(T1.into()),
        Some("2024-01-11T11:59:59.999999999Z".into()),
        Some(T2.into()),
        Some("2024-01-12T23:59:59Z".into()),
        Some(T3.into()),
        Some("2024-01-13T08:00:00Z".into()),
        Some("2024-01-15T07:59:59Z".into()),
        Some("2024-01-10T23:30:00+01:00".into()),
    ]
}

pub fn request_hosts() -> Vec<Option<String>> {
    [
        None,
        Some("example.org"),
        Some("EXAMPLE.ORG"),
        Some("Example.org"),
        Some("www.example.org"),
        Some("api.example.org"),
        Some("api.example.net"),
        Some("API.Example.Net"),
        Some("other.net"),
        Some("www.shop.org"),
        Some("nomatch.invalid"),
        Some("api.example.org.uk"),
        Some("x.api.example.org"),
        Some("apix.api.example.org"),
        Some(""),
    ]
    .iter()
    .map(|h| h.map(|s| s.to_string()))
    .collect()
}

pub fn request_ips() -> Vec<Option<String>> {
    [
        None,
        Some("10.1.2.3"),
        Some("10.2.0.1"),
        Some("192.168.1.7"),
        Some("192.168.2.7"),
        Some("8.8.8.8"),
        Some("2001:db8::1"),
        Some("::1"),
        // IPv4-mapped IPv6 (dual-stack listeners): an IPv6 address, outside every IPv4 range (cidr semantics,
        // which the flat predicate shares); must survive serialisation as written
        Some("::ffff:10.1.2.3"),
        Some("::ffff:192.168.1.7"),
    ]
    .iter()
    .map(|h| h.map(|s| s.to_string()))
    .collect()
}

pub fn request_methods() -> Vec<Option<String>> {
    // Some("") is not None: an absent method counts as GET, an empty one is the empty method
    [None, Some("GET"), Some("POST"), Some("PUT"), Some("get"), Some("")]
        .iter()
        .map(|h| h.map(|s| s.to_string()))
        .collect()
}

pub fn request_schemes() -> Vec<Option<String>> {
    // schemes are compared as written (a proxy reports them in lower case): "HTTP" is another scheme than "http"
    [None, Some("http"), Some("https"), Some("ftp"), Some(""), Some("HTTP")]
        .iter()
        .map(|h| h.map(|s| s.to_string()))
        .collect()
}

pub fn request_urls() -> Vec<String> {
    [
        "/a", "/A", "/a/b", "/a/B", "/a/12", "/a/12/c", "/a/12/C", "/a/xy", "/a/XY", "/xy/b", "/a?x=1", "/a?x=1&y=2", "/a?x=2", "/b", "/c", "/a/", "/a/12/d",
        "/a/b/c", "/", "/a/x-y", "/a/12/xy", "/a/7n", "/a/12/7n",
    ]
    .iter()
    .map(|s| s.to_string())
    .collect()
}

pub fn request_header_lists() -> Vec<Vec<(String, String)>> {
    let h = |pairs: &[(&str, &str)]| pairs.iter().map(|(a, b)| (a.to_string(), b.to_string())).collect::<Vec<_>>();
    vec![
        h(&[]),
        h(&[("X-A", "Foo")]),
        h(&[("x-a", "foo")]),
        h(&[("X-A", "Bar")]),
        h(&[("X-A", "")]),
        h(&[("X-A", "Foo"), ("X-A", "Bar")]),
        h(&[("X-A", "Bar"), ("x-a", "Foo")]),
        h(&[("X-B", "Foo")]),
        h(&[("X-B", "boo"), ("X-B", "zzz")]),
        h(&[("X-B", "zzz")]),
        h(&[("X-C", "bar")]),
        h(&[("X-C", "v12")]),
        h(&[("X-C", "V12 Bar")]),
        h(&[("X-A", "Foo"), ("X-B", "Foo"), ("X-C", "bar")]),
        h(&[("X-A", "ab-x"), ("X-C", "xv7x")]),
        h(&[("x-a", "AB-X"), ("x-b", "FOO"), ("x-c", "BAR")]),
        h(&[("X-A", "Foo"), ("X-C", "v12")]),
        h(&[("X-B", "Food"), ("X-C", "car")]),
    ]
}

pub fn marker_pool() -> Vec<MarkerSpec> {
    vec![
        MarkerSpec { name: "n".into(), regex: "[0-9]+".into(), transformers: vec![] },
        MarkerSpec { name: "w".into(), regex: "([\\p{Ll}]|\\-)+?".into(), transformers: vec![] },
        MarkerSpec { name: "sub".into(), regex: "[a-z]+".into(), transformers: vec![] },
        MarkerSpec { name: "tld".into(), regex: "(com|net|org)".into(), transformers: vec![] },
        MarkerSpec { name: "any".into(), regex: ".+?".into(), transformers: vec![] },
        MarkerSpec { name: "up".into(), regex: "([A-Z]+?)".into(), transformers: vec![] },
        MarkerSpec { name: "Sub2".into(), regex: "[a-z]+".into(), transformers: vec![] },
        // names that have another name of the pool as a strict prefix ("n" / "nn", "sub" / "subx"): references are
        // resolved longest name first
        MarkerSpec { name: "nn".into(), regex: "[a-z]{2}".into(), transformers: vec![] },
        MarkerSpec { name: "subx".into(), regex: "(x|y)".into(), transformers: vec![] },
    ]
}

pub fn scheme_pool() -> Vec<Option<String>> {
    vec![None, None, Some("".into()), Some("http".into()), Some("https".into())]
}

pub fn host_pool() -> Vec<Option<Template>> {
    vec![
        None,
        None,
        None,
        Some(Template::lit("")),
        Some(Template::lit("example.org")),
        Some(Template::lit("Example.org")),
        Some(Template::lit("www.example.org")),
        Some(Template::lit("other.net")),
        Some(Template::parse("@sub.example.org")),
        Some(Template::parse("@sub.example.@tld")),
        Some(Template::parse("www.@sub.org")),
        Some(Template::parse("@sub.Example.@tld")),
        // a host pattern that has another pattern of the pool as a strict textual prefix
        Some(Template::parse("@sub.example.org.uk")),
        // a marker whose *name* has upper-case letters (names are case-sensitive whatever the host case policy)
        Some(Template::parse("@Sub2.example.net")),
        // two markers, one name a strict prefix of the other
        Some(Template::parse("@subx.@sub.example.org")),
    ]
}

pub fn ip_pool() -> Vec<Option<Vec<IpSpec>>> {
    use IpSpec::{In, NotIn};
    vec![
        None,
        None,
        None,
        Some(vec![In("10.0.0.0/8".into())]),
        Some(vec![In("10.1.0.0/16".into())]),
        Some(vec![NotIn("10.0.0.0/8".into())]),
        Some(vec![In("192.168.1.0/24".into())]),
        Some(vec![In("2001:db8::/32".into())]),
        Some(vec![In("10.1.2.3".into())]),
        Some(vec![In("10.0.0.0/8".into()), In("10.1.0.0/16".into())]),
        Some(vec![In("10.1.0.0/16".into()), In("192.168.1.0/24".into())]),
        Some(vec![In("192.168.1.0/24".into()), NotIn("10.0.0.0/8".into())]),
        Some(vec![In("10.0.0.0/8".into()), In("10.1.0.0/16".into()), In("10.1.2.3/32".into())]),
        Some(vec![]),
    ]
}

pub fn method_pool() -> Vec<(Option<Vec<String>>, Option<bool>)> {
    let m = |l: &[&str]| Some(l.iter().map(|s| s.to_string()).collect::<Vec<_>>());
    vec![
        (None, None),
        (None, None),
        (None, None),
        (m(&[]), None),
        (m(&["GET"]), None),
        (m(&["POST"]), None),
        (m(&["GET", "POST"]), None),
        (m(&["GET", "GET"]), None),
        (m(&["GET"]), Some(true)),
        (m(&["POST", "PUT"]), Some(true)),
        (m(&[]), Some(true)),
        (None, Some(true)),
    ]
}

pub fn header_cond_pool() -> Vec<HeaderCond> {
    let c = |name: &str, kind: &str, value: Option<&str>| HeaderCond {
        name: name.to_string(),
        kind: kind.to_string(),
        value: value.map(Template::parse),
    };
    vec![
        c("X-A", "is_defined", None),
        c("x-a", "is_not_defined", None),
        c("X-A", "is_equals", Some("Foo")),
        c("X-A", "is_not_equal_to", Some("Foo")),
        c("X-B", "contains", Some("oo")),
        c("X-B", "does_not_contain", Some("oo")),
        c("X-B", "starts_with", Some("Fo")),
        c("X-C", "ends_with", Some("ar")),
        c("X-C", "match_regex", Some("v@n")),
        c("X-A", "match_regex", Some("@w-x")),
        c("X-C", "match_regex", Some("V@n")),
        c("X-C", "weird_kind", Some("zz")),
        c("X-C", "is_equals", None),
    ]
}

pub fn datetime_pool() -> Vec<Option<Vec<(Option<String>, Option<String>)>>> {
    let s = |x: &str| Some(x.to_string());
    vec![
        None,
        None,
        None,
        None,
        Some(vec![(None, s(T1))]),
        Some(vec![(s(T1), s(T2))]),
        Some(vec![(s(T2), None)]),
        Some(vec![(s(T1), s(T3))]),
        Some(vec![(s(T2), s(T1))]),
        Some(vec![(None, s(T1)), (s(T2), s(T3))]),
        Some(vec![]),
    ]
}

pub fn time_pool() -> Vec<Option<Vec<(Option<String>, Option<String>)>>> {
    let s = |x: &str| Some(x.to_string());
    vec![
        None,
        None,
        None,
        None,
        None,
        Some(vec![(s("08:00:00"), s("12:00:00"))]),
        Some(vec![(s("12:00:00"), None)]),
        Some(vec![(None, s("12:00:00"))]),
        Some(vec![(s("23:00:00"), s("01:00:00"))]),
    ]
}

pub fn weekday_pool() -> Vec<Option<Vec<String>>> {
    let w = |l: &[&str]| Some(l.iter().map(|s| s.to_string()).collect::<Vec<_>>());
    vec![None, None, None, None, None, w(&["Wed"]), w(&["Wed", "Thu"]), w(&["Sat", "Sun"]), w(&["Funday"]), w(&["monday", "Thursday"])]
}

pub fn path_pool() -> Vec<Template> {
    [
        "/a", "/a", "/a/b", "/A", "/a?x=1", "/a?x=1&y=2", "/b", "/a/@n", "/a/@n/c", "/a/@w", "/@w/b", "/a/@n/@w", "/a/@any", "/A/@n", "/a/@up", "/a?x=@n",
        // pattern rules that diverge on an *escaped* character (regex::escape protects '.', '-', '?'): the
        // prefix computation of the regex tree must not stop between the backslash and the character
        "/a.@n", "/a-@n", "/a.x?y=@w",
        // marker names that are prefixes of one another
        "/a/@n/@nn", "/a/@nn",
        // a second pattern below the upper-case literal "/A/": the tree gets a node whose plain-text prefix has an
        // upper-case letter
        "/A/@w",
    ]
    .iter()
    .map(|s| Template::parse(s))
    .collect()
}

/// random rule over the pools; `layers` bounds how many optional trigger layers are constrained
pub fn random_rule(rng: &mut Rng, id: &str) -> RuleSpec {
    let mut r = RuleSpec::simple(id, "/a");
    r.rank = *rng.pick(&[0u16, 0, 1, 2, 5, 10]);
    r.path = rng.pick(&path_pool()).clone();
    r.markers = marker_pool();
    if rng.chance(1, 2) {
        r.scheme = rng.pick(&scheme_pool()).clone();
    }
    if rng.chance(2, 3) {
        r.host = rng.pick(&host_pool()).clone();
    }
    if rng.chance(1, 3) {
        r.ips = rng.pick(&ip_pool()).clone();
    }
    if rng.chance(1, 3) {
        let (m, e) = rng.pick(&method_pool()).clone();
        r.methods = m;
        r.exclude_methods = e;
    }
    if rng.chance(1, 3) {
        let pool = header_cond_pool();
        let n = rng.range(1, 3);
        for _ in 0..n {
            r.headers.push(rng.pick(&pool).clone());
        }
    }
    if rng.chance(1, 4) {
        r.datetime = rng.pick(&datetime_pool()).clone();
    }
    if rng.chance(1, 5) {
        r.time = rng.pick(&time_pool()).clone();
    }
    if rng.chance(1, 5) {
        r.weekdays = rng.pick(&weekday_pool()).clone();
    }
    // keep only the markers actually referenced somewhere (plus sometimes an unused one)
    let mut used: Vec<String> = r.path.marker_names();
    if let Some(h) = &r.host {
        used.extend(h.marker_names());
    }
    for h in &r.headers {
        if let Some(v) = &h.value {
            used.extend(v.marker_names());
        }
    }
    let keep_unused = rng.chance(1, 6);
    r.markers.retain(|m| used.contains(&m.name) || (keep_unused && m.name == "any"));
    r
}

pub fn random_request(rng: &mut Rng) -> ReqSpec {
    ReqSpec {
        url: rng.pick(&request_urls()).clone(),
        host: rng.pick(&request_hosts()).clone(),
        scheme: rng.pick(&request_schemes()).clone(),
        method: rng.pick(&request_methods()).clone(),
        ip: rng.pick(&request_ips()).clone(),
        headers: rng.pick(&request_header_lists()).clone(),
        created_at: rng.pick(&request_instants()).clone(),
        sampling_override: None,
    }
}

/// Bend `base` towards satisfying `rule`, one trigger dimension at a time (generation aid only).
pub fn witness_for(rule: &ModelRule, cfg: &Cfg, base: &ReqSpec, rng: &mut Rng) -> ReqSpec {
    let mut q = base.clone();
    // scheme
    if !rule.sat_scheme(&q) {
        q.scheme = rule.scheme_scope().map(|s| s.to_string());
    }
    // host
    if !rule.sat_host(&q, cfg) {
        let mut pool = request_hosts();
        rng.shuffle(&mut pool);
        for h in pool {
            let mut c = q.clone();
            c.host = h;
            if rule.sat_host(&c, cfg) {
                q = c;
                break;
            }
        }
    }
    if !rule.sat_ip(&q) {
        let mut pool = request_ips();
        rng.shuffle(&mut pool);
        for ip in pool {
            let mut c = q.clone();
            c.ip = ip;
            if rule.sat_ip(&c) {
                q = c;
                break;
            }
        }
    }
    if !rule.sat_method(&q) {
        let mut pool = request_methods();
        rng.shuffle(&mut pool);
        for m in pool {
            let mut c = q.clone();
            c.method = m;
            if rule.sat_method(&c) {
                q = c;
                break;
            }
        }
    }
    if !rule.sat_headers(&q, cfg, true) {
        let mut pool = request_header_lists();
        rng.shuffle(&mut pool);
        for h in pool {
            let mut c = q.clone();
            c.headers = h;
            if rule.sat_headers(&c, cfg, true) {
                q = c;
                break;
            }
        }
    }
    if !rule.sat_datetime(&q) {
        let mut pool = request_instants();
        rng.shuffle(&mut pool);
        for t in pool {
            let mut c = q.clone();
            c.created_at = t;
            if rule.sat_datetime(&c) {
                q = c;
                break;
            }
        }
    }
    if !rule.sat_path(&q, cfg) {
        let mut pool = request_urls();
        rng.shuffle(&mut pool);
        for u in pool {
            let mut c = q.clone();
            c.url = u;
            if rule.sat_path(&c, cfg) {
                q = c;
                break;
            }
        }
    }
    q
}

/// single-trigger mutation of a request
pub fn mutate_request(q: &ReqSpec, rng: &mut Rng) -> (ReqSpec, &'static str) {
    let mut m = q.clone();
    let dim = match rng.below(7) {
        0 => {
            m.scheme = rng.pick(&request_schemes()).clone();
            "scheme"
        }
        1 => {
            m.host = rng.pick(&request_hosts()).clone();
            "host"
        }
        2 => {
            m.ip = rng.pick(&request_ips()).clone();
            "ip"
        }
        3 => {
            m.method = rng.pick(&request_methods()).clone();
            "method"
        }
        4 => {
            m.headers = rng.pick(&request_header_lists()).clone();
            "headers"
        }
        5 => {
            m.created_at = rng.pick(&request_instants()).clone();
            "datetime"
        }
        _ => {
            m.url = rng.pick(&request_urls()).clone();
            "path"
        }
    };
    (m, dim)
}

/// probe requests derived from the rule set: a witness per rule, mutations of it, and random ones
pub fn probes_for(model: &Model, rng: &mut Rng, per_rule: usize, random: usize) -> Vec<(ReqSpec, &'static str)> {
    let mut out = Vec::new();
    for rule in &model.rules {
        let base = random_request(rng);
        let w = witness_for(rule, &model.cfg, &base, rng);
        for _ in 0..per_rule {
            out.push(mutate_request(&w, rng));
        }
        out.push((w, "witness"));
    }
    for _ in 0..random {
        out.push((random_request(rng), "random"));
    }
    out
}
