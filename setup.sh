#!/bin/bash
# setup_cmd: build the monitors offline from files on disk only.
set -u
VERIF_DIR="$(cd "$(dirname "$0")" && pwd)"
cd "$VERIF_DIR" || exit 2
export VERIF_DIR PUBLISH_SKIP_BUILD=1 CARGO_NET_OFFLINE=true
. "$VERIF_DIR/tools/lib.sh"
rm -f "$VERIF_DIR/harness/Cargo.lock"
build_harness || exit 2
build_harness_ovf || exit 2
echo "setup ok"
