#!/bin/bash
# Diagnostic, not a registered check: which lines of /repo/src do the monitors' quick workloads reach?
#   tools/coverage.sh [Cxx ...]        (default: every monitor that runs inside rio-mon)
# Builds an instrumented copy of the monitors (nightly, -Cinstrument-coverage) in /verif/target-cov,
# runs each monitor's quick tier against a scratch verif dir (evidence of the real checks is not touched),
# merges the profiles and writes
#   coverage/summary.json      per-file line/function/region coverage of /repo/src
#   coverage/uncovered.txt     every instrumented line of /repo/src no workload executed
# The report answers "what did the workloads never drive" (DESIGN.md Appendix E); it decides no property.
set -u
VERIF_DIR="$(cd "$(dirname "$0")/.." && pwd)"
. "$VERIF_DIR/tools/lib.sh"
export CARGO_NET_OFFLINE=true PUBLISH_SKIP_BUILD=1
ensure_lock
T="$VERIF_DIR/target-cov"
BIN_DIR="$(dirname "$(rustc +nightly --print target-libdir)")/bin"
MONS=("$@")
if [ ${#MONS[@]} -eq 0 ]; then
    MONS=(C01 C02 C03 C04 C05 C06 C07 C08 C09 C10 C11 C12 C13 C14 C15 C16 C17 C19)
fi
mkdir -p "$T/prof"
# build scripts and proc macros are instrumented too: keep their profiles out of the source trees
LLVM_PROFILE_FILE="$T/prof/build-%p-%m.discard" RUSTFLAGS="-Cinstrument-coverage" cargo +nightly build --release --offline \
    --manifest-path "$VERIF_DIR/harness/Cargo.toml" --target-dir "$T" >"$T.build.log" 2>&1 || {
    echo "coverage build failed"; tail -30 "$T.build.log"; exit 2; }
rm -f "$T.build.log"
SCRATCH="$(mktemp -d /tmp/verif-cov.XXXXXX)"
cp "$VERIF_DIR/known_findings.json" "$SCRATCH/"
mkdir -p "$SCRATCH/evidence" "$T/prof"
rm -f "$T"/prof/*.profraw "$T"/prof/*.discard
# the FFI call-sequence driver (C18, FFI part of C07) covers the extern "C" surface: instrument it as well
( cd "$VERIF_DIR/ffi-driver" && [ -f Cargo.lock ] || cp "$VERIF_DIR/harness/Cargo.lock" "$VERIF_DIR/ffi-driver/Cargo.lock" 2>/dev/null
  LLVM_PROFILE_FILE="$T/prof/build-%p-%m.discard" RUSTFLAGS="-Cinstrument-coverage" cargo +nightly build --release --offline \
    --manifest-path "$VERIF_DIR/ffi-driver/Cargo.toml" --target-dir "$T/ffi" >"$T.build.log" 2>&1 ) || { echo "ffi-driver coverage build failed"; tail -20 "$T.build.log"; }
rm -f "$T.build.log" "$T"/prof/*.discard
if [ -x "$T/ffi/release/ffi-driver" ]; then
    LLVM_PROFILE_FILE="$T/prof/ffi-%p-%m.profraw" "$T/ffi/release/ffi-driver" --seed "${VERIF_SEED:-1}" --scenarios 4000 2>/dev/null | tail -1 | cut -c1-200
fi
for c in "${MONS[@]}"; do
    SLICE="${COV_SECONDS:-150}"
    # C07 runs its families one after the other in worker processes: give it time to reach the last one
    [ "$c" = "C07" ] && SLICE=$((SLICE * 5))
    # %p: one file per process (C07 spawns workers), %m: per binary signature
    # instrumented counters shared by 16 threads make the workloads ~20x slower: each monitor gets a fixed
    # time slice (VERIF_COV_SECONDS, honoured by rio-mon: exit(0) so that the profile is flushed); coverage
    # of /repo saturates within the first seconds (catalogues run first), the evidence of this run is discarded
    VERIF_COV_SECONDS="$SLICE" LLVM_PROFILE_FILE="$T/prof/$c-%p-%m.profraw" "$T/release/rio-mon" "$c" --tier quick --seed "${VERIF_SEED:-1}" \
        --verif-dir "$SCRATCH" 2>&1 | tail -1
done
"$BIN_DIR/llvm-profdata" merge -sparse "$T"/prof/*.profraw -o "$T/prof/all.profdata" || exit 2
mkdir -p "$VERIF_DIR/coverage"
OBJS=("$T/release/rio-mon")
[ -x "$T/ffi/release/ffi-driver" ] && OBJS+=(-object "$T/ffi/release/ffi-driver")
"$BIN_DIR/llvm-cov" export "${OBJS[@]}" -instr-profile="$T/prof/all.profdata" -summary-only \
    --ignore-filename-regex='(\.cargo|rustc|/verif/)' >"$T/prof/summary.raw.json" || exit 2
"$BIN_DIR/llvm-cov" show "${OBJS[@]}" -instr-profile="$T/prof/all.profdata" \
    --ignore-filename-regex='(\.cargo|rustc|/verif/)' -show-line-counts-or-regions=false >"$T/prof/show.txt" || exit 2
python3 - "$T/prof/summary.raw.json" "$T/prof/show.txt" "$VERIF_DIR/coverage" "${MONS[*]}" <<'EOF'
import json, sys, re
raw, show, out, mons = sys.argv[1:5]
d = json.load(open(raw))["data"][0]
files = {}
for f in d["files"]:
    name = f["filename"]
    if not name.startswith("/repo/src/"):
        continue
    s = f["summary"]
    files[name[len("/repo/"):]] = {
        "lines": s["lines"]["count"], "lines_covered": s["lines"]["covered"],
        "functions": s["functions"]["count"], "functions_covered": s["functions"]["covered"],
        "regions": s["regions"]["count"], "regions_covered": s["regions"]["covered"],
    }
tot = {k: sum(v[k] for v in files.values()) for k in ["lines", "lines_covered", "functions", "functions_covered", "regions", "regions_covered"]}
json.dump({"monitors": mons.split(), "tier": "quick", "total": tot, "files": dict(sorted(files.items()))},
          open(out + "/summary.json", "w"), indent=1)
# uncovered lines: llvm-cov show prints "   12|      0|code"
cur = None
unc = []
for line in open(show, errors="replace"):
    m = re.match(r"^(/repo/src/\S+):$", line)
    if m:
        cur = m.group(1)[len("/repo/"):]
        continue
    if line.startswith("/") and line.rstrip().endswith(":"):
        cur = None
        continue
    if cur is None:
        continue
    m = re.match(r"^\s*(\d+)\|\s*0\|(.*)$", line)
    if m:
        unc.append(f"{cur}:{m.group(1)}: {m.group(2).rstrip()}")
open(out + "/uncovered.txt", "w").write("\n".join(unc) + "\n")
print(f"lines {tot['lines_covered']}/{tot['lines']}  functions {tot['functions_covered']}/{tot['functions']}  regions {tot['regions_covered']}/{tot['regions']}  uncovered lines listed: {len(unc)}")
EOF
rm -rf "$SCRATCH"
if [ "${KEEP_COV_TARGET:-0}" != "1" ]; then rm -rf "$T"; fi
