#!/bin/bash
# C07: the Rust panic/abort monitor (subprocess workers), then the documented-null / hostile-string patterns
# of the C entry points in the FFI driver (audit allocator + Miri); the second step merges into the evidence;
# then the panic monitor again, library and monitors built with integer-overflow checks (30 % of the budget in
# the quick tier, all of it in the thorough tier), merged into the same evidence.
MODE="$1"; SEED="${2:-1}"
DIR="$(cd "$(dirname "$0")/../.." && pwd)"
"$DIR/target/release/rio-mon" C07 --tier "$MODE" --seed "$SEED" --verif-dir "$DIR"; A=$?
C07_MERGE=1 python3 "$DIR/tools/engines/c18.py" C07 "$MODE" "$SEED"; B=$?
if [ "$MODE" = "thorough" ]; then SCALE=100; else SCALE=30; fi
OVF_SCALE=$SCALE "$DIR/tools/engines/ovf.sh" C07 "$MODE" "$SEED" --second-only; C=$?
if [ $A -eq 1 ] || [ $B -eq 1 ] || [ $C -eq 1 ]; then exit 1; fi
if [ $A -ne 0 ]; then exit $A; fi
if [ $B -ne 0 ]; then exit $B; fi
exit $C
