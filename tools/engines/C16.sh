#!/bin/bash
exec "$(dirname "$0")/ovf.sh" C16 "$@"
