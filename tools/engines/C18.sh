#!/bin/bash
exec python3 "$(dirname "$0")/c18.py" C18 "$@"
