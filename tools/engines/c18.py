#!/usr/bin/env python3
"""C18 (and the FFI part of C07): orchestrates the FFI call-sequence driver under the memory monitors.

engines
  audit     ffi-driver built with the address-remembering audit allocator (layout of every dealloc /
            realloc, frees of unknown pointers, leak-by-repetition), 16 shards in parallel
  miri      the same driver interpreted by Miri (Stacked Borrows; scenarios without CSS selectors because
            the selector engine's dependency servo_arc is rejected by Stacked Borrows) and, in the thorough
            tier, Tree Borrows runs with selectors; leak check at exit on the non-immortal families
  asan      thorough: -Zsanitizer=address build (UAF, overflow, double free, LeakSanitizer)
  valgrind  thorough: memcheck on the plain release driver
  cdriver   thorough: C client compiled with clang -fsanitize=address,undefined against libredirectionio.a

usage: c18.py <property C18|C07> <quick|thorough> <seed>      |      c18.py C18 --replay <file>
"""
import json, os, re, subprocess, sys, time, concurrent.futures as cf

VERIF = os.environ.get("VERIF_DIR", "/verif")
DRIVER_DIR = os.path.join(VERIF, "ffi-driver")
ENV = dict(os.environ, PUBLISH_SKIP_BUILD="1", CARGO_NET_OFFLINE="true", RUST_BACKTRACE="0")
JOBS = 16


def sh(cmd, env=None, timeout=None, cwd=None):
    p = subprocess.run(cmd, env=env or ENV, cwd=cwd, stdout=subprocess.PIPE, stderr=subprocess.PIPE, timeout=timeout)
    return p.returncode, p.stdout.decode("utf-8", "replace"), p.stderr.decode("utf-8", "replace")


def ensure_lock():
    lock = os.path.join(DRIVER_DIR, "Cargo.lock")
    if not os.path.exists(lock):
        src = "/repo/Cargo.lock" if os.path.exists("/repo/Cargo.lock") else os.path.join(DRIVER_DIR, "Cargo.lock.fallback")
        subprocess.run(["cp", src, lock])


def build(kind):
    """returns (binary path or None, error text)"""
    ensure_lock()
    if kind == "audit":
        target = os.path.join(VERIF, "target-ffi")
        rc, out, err = sh(["cargo", "build", "--release", "--offline", "--features", "audit", "--target-dir", target], cwd=DRIVER_DIR)
        return (os.path.join(target, "release", "ffi-driver") if rc == 0 else None), err[-3000:]
    if kind == "plain":
        target = os.path.join(VERIF, "target-ffi-plain")
        rc, out, err = sh(["cargo", "build", "--release", "--offline", "--target-dir", target], cwd=DRIVER_DIR)
        return (os.path.join(target, "release", "ffi-driver") if rc == 0 else None), err[-3000:]
    if kind == "asan":
        target = os.path.join(VERIF, "target-ffi-asan")
        env = dict(ENV, RUSTFLAGS="-Zsanitizer=address -Cforce-frame-pointers=yes")
        rc, out, err = sh(["cargo", "+nightly", "build", "--release", "--offline", "--target", "x86_64-unknown-linux-gnu", "--target-dir", target], env=env, cwd=DRIVER_DIR)
        return (os.path.join(target, "x86_64-unknown-linux-gnu", "release", "ffi-driver") if rc == 0 else None), err[-3000:]
    raise ValueError(kind)


def last_begin(stderr):
    begins = re.findall(r"^BEGIN (\d+) (\w+)$", stderr, re.M)
    ends = set(re.findall(r"^END (\d+)$", stderr, re.M))
    open_ = [b for b in begins if b[0] not in ends]
    return open_[-1] if open_ else None


CPU_LIMIT_ALONE = 60  # seconds of CPU time (a load-independent clock) granted to one scenario run alone


def confirm_nontermination(cmd_alone, env=None):
    """Re-run one scenario alone under a CPU-time limit. CPU time, not wall-clock time, decides: a scenario of
    these families needs milliseconds of CPU; one that burns CPU_LIMIT_ALONE seconds alone does not terminate
    within 1000x its normal budget. Returns 'nonterminating' | 'terminates' | 'unknown'."""
    import resource, signal

    def limit():
        resource.setrlimit(resource.RLIMIT_CPU, (CPU_LIMIT_ALONE, CPU_LIMIT_ALONE + 5))

    try:
        p = subprocess.run(cmd_alone, env=env or ENV, stdout=subprocess.PIPE, stderr=subprocess.PIPE, timeout=CPU_LIMIT_ALONE * 40, preexec_fn=limit)
    except subprocess.TimeoutExpired:
        return "unknown"
    if p.returncode in (-signal.SIGXCPU, -signal.SIGKILL):
        return "nonterminating"
    return "terminates"


def run_driver(cmd, env=None, timeout=1800):
    """returns dict(summary or None, rc, crashed_in, stderr_tail)"""
    try:
        rc, out, err = sh(cmd, env=env, timeout=timeout)
    except subprocess.TimeoutExpired as e:
        partial = (e.stderr or b"").decode("utf-8", "replace")
        return {"summary": None, "rc": None, "timeout": True, "crashed_in": last_begin(partial), "stderr": partial[-2000:]}
    summary = None
    for line in out.splitlines():
        line = line.strip()
        if line.startswith("{") and '"scenarios"' in line:
            try:
                summary = json.loads(line)
            except Exception:
                pass
    return {"summary": summary, "rc": rc, "timeout": False, "crashed_in": last_begin(err) if summary is None else None, "stderr": err[-4000:]}


class Result:
    def __init__(self, prop, tier, seed):
        self.prop, self.tier, self.seed = prop, tier, seed
        self.engines = []
        self.violations = []  # (message, replay dict)
        self.inconclusive = []
        self.scenarios = 0
        self.ops = 0
        self.samples = []

    def engine(self, name, **kw):
        self.engines.append(dict(engine=name, **kw))

    def violation(self, message, replay):
        self.violations.append((message, replay))


def audit_phase(res, binary, family, scenarios, seed, max_payload):
    futures = []
    hung_reported = set()
    with cf.ThreadPoolExecutor(JOBS) as ex:
        for shard in range(JOBS):
            cmd = [binary, "--seed", str(seed), "--scenarios", str(scenarios), "--family", family, "--shard", f"{shard}/{JOBS}", "--max-payload", str(max_payload)]
            futures.append((shard, cmd, ex.submit(run_driver, cmd, None, 420 if scenarios <= 5000 else 3600)))
    total = dict(processes=0, scenarios=0, ops=0, layout_mismatches=0, frees_of_unknown_pointers=0, leaks=0, value_violations=0, crashes=0, allocations_observed=0)
    for shard, cmd, fut in futures:
        r = fut.result()
        total["processes"] += 1
        s = r["summary"]
        if s is None:
            if r["timeout"]:
                where = r["crashed_in"]
                verdict = "unknown"
                if family in hung_reported:
                    # one confirmed non-terminating scenario of this family is the verdict; the other shards that
                    # hit the watchdog are not triaged one by one (60 s of CPU each)
                    res.inconclusive.append(f"audit shard {shard} ({family}) also hit the wall-clock watchdog in scenario {where}; not triaged: a non-terminating scenario of this family is already reported")
                    continue
                if where:
                    alone = [binary, "--seed", str(seed), "--scenarios", str(scenarios), "--family", family, "--only", where[0], "--max-payload", str(max_payload)]
                    verdict = confirm_nontermination(alone)
                if verdict == "nonterminating" and family in hung_reported:
                    continue
                if verdict == "nonterminating":
                    hung_reported.add(family)
                    res.violation(
                        f"scenario {where} of family {family} does not terminate: run alone it was still running after {CPU_LIMIT_ALONE} s of CPU time (scenarios of this family need milliseconds)",
                        dict(engine="audit", seed=seed, family=family, scenarios=scenarios, only=int(where[0]), max_payload=max_payload),
                    )
                else:
                    res.inconclusive.append(f"audit shard {shard} ({family}) hit the wall-clock watchdog in scenario {where}; alone: {verdict} (no verdict)")
                continue
            total["crashes"] += 1
            where = r["crashed_in"]
            tail = [l for l in r["stderr"].splitlines() if "panicked" in l or "abort" in l.lower() or "signal" in l.lower()][-2:]
            res.violation(
                f"the process died (rc={r['rc']}) inside scenario {where} of family {family}: {' | '.join(tail)}",
                dict(engine="audit", seed=seed, family=family, scenarios=scenarios, only=int(where[0]) if where else None, max_payload=max_payload),
            )
            continue
        total["scenarios"] += s["scenarios"]
        total["ops"] += s["ops"]
        total["allocations_observed"] += s["allocations_observed"]
        for key in ("layout_mismatches", "frees_of_unknown_pointers"):
            total[key] += s[key]
        total["leaks"] += len(s["leaks"])
        total["value_violations"] += len(s["value_violations"])
        if s["layout_mismatches"]:
            res.violation(
                f"{s['layout_mismatches']} deallocations with a layout different from the allocation's (first: allocated {s['first_layout_mismatch']['allocated_size']} bytes, released as {s['first_layout_mismatch']['freed_with_size']} bytes), family {family} shard {shard}",
                dict(engine="audit", seed=seed, family=family, scenarios=scenarios, shard=f"{shard}/{JOBS}", max_payload=max_payload),
            )
        if s["frees_of_unknown_pointers"]:
            res.violation(f"{s['frees_of_unknown_pointers']} frees of pointers the allocator never handed out (double free?), family {family} shard {shard}", dict(engine="audit", seed=seed, family=family, scenarios=scenarios, shard=f"{shard}/{JOBS}", max_payload=max_payload))
        if family != "immortal":
            for leak in s["leaks"][:3]:
                m = re.match(r"scenario (\d+)", leak)
                res.violation("leak: " + leak, dict(engine="audit", seed=seed, family=family, scenarios=scenarios, only=int(m.group(1)) if m else None, max_payload=max_payload))
        for v in s["value_violations"][:3]:
            m = re.match(r"scenario (\d+)", v)
            res.violation("value oracle: " + v, dict(engine="audit", seed=seed, family=family, scenarios=scenarios, only=int(m.group(1)) if m else None, max_payload=max_payload))
        if len(res.samples) < 3:
            res.samples.append(dict(engine="audit", family=family, shard=shard, per_kind=s["per_kind"], ops=s["ops"], allocations_observed=s["allocations_observed"]))
    res.scenarios += total["scenarios"]
    res.ops += total["ops"]
    res.engine("audit-allocator", family=family, **total)


def miri_phase(res, family, shards, scenarios_per_shard, seed, tree_borrows, selectors, aliasing=True):
    """aliasing=False: run without any aliasing model (-Zmiri-disable-stacked-borrows). Used for the scenarios with
    CSS selectors: the selector engine's own dependency (servo_arc 0.4.3, Arc::drop) is rejected by both aliasing
    models (Stacked Borrows and the experimental Tree Borrows) in third-party code that has nothing to do with the
    C surface; without the aliasing model Miri still checks use-after-free, double free, invalid deallocation,
    leaks, uninitialised reads, alignment and validity on those scenarios. The library's own code is checked under
    both aliasing models on the scenarios without selectors."""
    if any("does not terminate" in m and f"family {family}" in m for m, _ in res.violations):
        res.engine("miri", family=family, processes=0, scenarios=0, reports=0, note="skipped: a scenario of this family does not terminate (reported by the audit phase)")
        return
    flags = "-Zmiri-disable-isolation" + (" -Zmiri-tree-borrows" if tree_borrows and aliasing else "") + ("" if aliasing else " -Zmiri-disable-stacked-borrows") + (" -Zmiri-ignore-leaks" if family == "immortal" else "")
    env = dict(ENV, MIRIFLAGS=flags)
    model = ("tree" if tree_borrows else "stacked") if aliasing else "none"
    target = os.path.join(VERIF, "target-miri")
    # build once (sequential) so that the shards do not fight over the target dir lock
    ensure_lock()
    rc, out, err = sh(["cargo", "+nightly", "miri", "run", "--offline", "--target-dir", target, "--", "--scenarios", "0"], env=env, cwd=DRIVER_DIR, timeout=3600)
    if rc != 0:
        res.inconclusive.append("the Miri build of the FFI driver failed (harness problem, no verdict): " + err[-400:])
        res.engine("miri", family=family, processes=0, scenarios=0, reports=0, note="build failed")
        return
    total = dict(processes=0, scenarios=0, ops=0, reports=0)
    futures = []
    with cf.ThreadPoolExecutor(min(JOBS, shards)) as ex:
        for shard in range(shards):
            cmd = ["cargo", "+nightly", "miri", "run", "--offline", "--target-dir", target, "--", "--seed", str(seed * 100 + shard), "--scenarios", str(scenarios_per_shard), "--family", family, "--max-payload", "600"]
            if not selectors:
                cmd.append("--no-selectors")
            futures.append((shard, cmd, ex.submit(run_in_dir, cmd, env)))
    for shard, cmd, fut in futures:
        r = fut.result()
        total["processes"] += 1
        s = r["summary"]
        err = r["stderr"]
        ub = re.search(r"error: (Undefined Behavior[^\n]*|memory leaked[^\n]*|[^\n]*deallocat[^\n]*)", err)
        if r["timeout"]:
            res.inconclusive.append(f"Miri shard {shard} hit the wall-clock watchdog")
            continue
        if s is None or ub or r["rc"] not in (0,):
            total["reports"] += 1
            where = r["crashed_in"] or last_begin(err)
            in_repo = re.findall(r"/repo/src/[^\s:]+:\d+", err)
            res.violation(
                f"Miri (aliasing model: {model}) reported: {(ub.group(1) if ub else 'rc=' + str(r['rc']))[:300]}; first library frame: {in_repo[0] if in_repo else 'n/a'}; scenario {where}",
                dict(engine="miri", seed=seed * 100 + shard, family=family, scenarios=scenarios_per_shard, only=int(where[0]) if where else None, tree_borrows=tree_borrows, selectors=selectors, aliasing=aliasing),
            )
            if s is None:
                continue
        total["scenarios"] += s["scenarios"]
        total["ops"] += s["ops"]
        for v in s["value_violations"][:2]:
            res.violation("value oracle under Miri: " + v, dict(engine="miri", seed=seed * 100 + shard, family=family, scenarios=scenarios_per_shard, tree_borrows=tree_borrows, selectors=selectors, aliasing=aliasing))
    res.scenarios += total["scenarios"]
    res.ops += total["ops"]
    res.engine("miri", family=family, borrow_model=model, css_selectors=selectors, leak_check=family != "immortal", **total)


def run_in_dir(cmd, env):
    try:
        p = subprocess.run(cmd, env=env, cwd=DRIVER_DIR, stdout=subprocess.PIPE, stderr=subprocess.PIPE, timeout=3600)
    except subprocess.TimeoutExpired:
        return {"summary": None, "rc": None, "timeout": True, "crashed_in": None, "stderr": ""}
    out, err = p.stdout.decode("utf-8", "replace"), p.stderr.decode("utf-8", "replace")
    summary = None
    for line in out.splitlines():
        if line.strip().startswith("{") and '"scenarios"' in line:
            try:
                summary = json.loads(line.strip())
            except Exception:
                pass
    return {"summary": summary, "rc": p.returncode, "timeout": False, "crashed_in": last_begin(err) if summary is None else None, "stderr": err[-6000:]}


def asan_phase(res, scenarios, seed):
    binary, err = build("asan")
    if binary is None:
        res.inconclusive.append("the AddressSanitizer build failed (harness problem, no verdict): " + err[-300:])
        res.engine("asan+lsan", processes=0, scenarios=0, reports=0, note="build failed")
        return
    env = dict(ENV, ASAN_OPTIONS="halt_on_error=1:abort_on_error=0:detect_leaks=1:exitcode=66", LSAN_OPTIONS="exitcode=66")
    total = dict(processes=0, scenarios=0, ops=0, reports=0)
    futures = []
    with cf.ThreadPoolExecutor(JOBS) as ex:
        for shard in range(JOBS):
            cmd = [binary, "--seed", str(seed), "--scenarios", str(scenarios), "--family", "lifecycle", "--shard", f"{shard}/{JOBS}"]
            futures.append((shard, ex.submit(run_driver, cmd, env)))
    for shard, fut in futures:
        r = fut.result()
        total["processes"] += 1
        if r["timeout"]:
            res.inconclusive.append(f"ASan shard {shard} hit the wall-clock watchdog")
            continue
        report = re.search(r"ERROR: (AddressSanitizer|LeakSanitizer)[^\n]*", r["stderr"])
        if report or r["summary"] is None or r["rc"] != 0:
            total["reports"] += 1
            frames = re.findall(r"/repo/src/[^\s:]+:\d+", r["stderr"])
            res.violation(f"ASan/LSan: {(report.group(0) if report else 'rc=' + str(r['rc']))[:300]}; first library frame {frames[0] if frames else 'n/a'}; scenario {r['crashed_in'] or last_begin(r['stderr'])}", dict(engine="asan", seed=seed, family="lifecycle", scenarios=scenarios, shard=f"{shard}/{JOBS}"))
        if r["summary"]:
            total["scenarios"] += r["summary"]["scenarios"]
            total["ops"] += r["summary"]["ops"]
    res.scenarios += total["scenarios"]
    res.ops += total["ops"]
    res.engine("asan+lsan", **total)


def valgrind_phase(res, scenarios, seed):
    binary, err = build("plain")
    if binary is None:
        res.inconclusive.append("the plain release build failed: " + err[-300:])
        return
    total = dict(processes=0, scenarios=0, ops=0, reports=0)
    futures = []
    with cf.ThreadPoolExecutor(JOBS) as ex:
        for shard in range(JOBS):
            cmd = ["valgrind", "--quiet", "--error-exitcode=77", "--leak-check=full", "--errors-for-leak-kinds=definite", "--show-leak-kinds=definite", binary, "--seed", str(seed), "--scenarios", str(scenarios), "--family", "lifecycle", "--shard", f"{shard}/{JOBS}", "--max-payload", "70000"]
            futures.append((shard, ex.submit(run_driver, cmd, None, 3600)))
    for shard, fut in futures:
        r = fut.result()
        total["processes"] += 1
        if r["timeout"]:
            res.inconclusive.append(f"valgrind shard {shard} hit the wall-clock watchdog")
            continue
        if r["rc"] == 77 or r["summary"] is None:
            total["reports"] += 1
            first = [l for l in r["stderr"].splitlines() if l.startswith("==") and ("Invalid" in l or "lost" in l or "Mismatched" in l)][:1]
            res.violation(f"valgrind memcheck: {first[0] if first else 'rc=' + str(r['rc'])}", dict(engine="valgrind", seed=seed, family="lifecycle", scenarios=scenarios, shard=f"{shard}/{JOBS}"))
        if r["summary"]:
            total["scenarios"] += r["summary"]["scenarios"]
            total["ops"] += r["summary"]["ops"]
    res.scenarios += total["scenarios"]
    res.ops += total["ops"]
    res.engine("valgrind-memcheck", **total)


def cdriver_phase(res, iterations, seed):
    cdir = os.path.join(VERIF, "cdriver")
    target = os.path.join(VERIF, "target-clib")
    rc, out, err = sh(["cargo", "build", "--release", "--lib", "--offline", "--manifest-path", "/repo/Cargo.toml", "--target-dir", target])
    lib = os.path.join(target, "release", "libredirectionio.a")
    if rc != 0 or not os.path.exists(lib):
        res.inconclusive.append("building libredirectionio.a failed: " + err[-300:])
        return
    exe = os.path.join(target, "cdriver")
    rc, out, err = sh(["clang", "-g", "-O1", "-fsanitize=address,undefined", "-fno-sanitize-recover=all", os.path.join(cdir, "driver.c"), lib, "-lpthread", "-ldl", "-lm", "-o", exe])
    if rc != 0:
        res.inconclusive.append("compiling the C driver failed: " + err[-400:])
        return
    env = dict(ENV, ASAN_OPTIONS="detect_leaks=1:halt_on_error=1:exitcode=66", UBSAN_OPTIONS="halt_on_error=1")
    rc, out, err = sh([exe, str(seed), str(iterations)], env=env, timeout=3600)
    reports = 0
    if rc != 0:
        reports = 1
        first = re.search(r"(ERROR: [^\n]*|runtime error: [^\n]*|MISMATCH[^\n]*)", err + out)
        res.violation(f"C driver under clang ASan/UBSan: {(first.group(1) if first else 'rc=' + str(rc))[:300]}", dict(engine="cdriver", seed=seed, iterations=iterations))
    m = re.search(r"calls=(\d+)", out)
    res.engine("cdriver-clang-asan-ubsan", processes=1, iterations=iterations, calls=int(m.group(1)) if m else 0, reports=reports)
    res.ops += int(m.group(1)) if m else 0


def finish(res, started):
    prop = res.prop
    known_path = os.path.join(VERIF, "known_findings.json")
    replays = os.path.join(VERIF, "replays")
    os.makedirs(replays, exist_ok=True)
    exit_code = 0
    for n, (message, replay) in enumerate(res.violations[:20]):
        path = os.path.join(replays, f"{prop}-{res.tier}-{res.seed}-ffi-{n}.json")
        json.dump(dict(property=prop, message=message, case=dict(ffi=replay)), open(path, "w"), indent=1)
        print(f"VIOLATION property={prop} replay={path}")
        print("  " + message[:600])
        exit_code = 1
    inconclusive = list(res.inconclusive)
    nontrivial = res.scenarios
    if nontrivial < 2:
        inconclusive.append("fewer than 2 scenarios were executed: coverage not claimed")
    evidence = dict(
        property_id=prop,
        tier=res.tier,
        seed=res.seed,
        level="exploration",
        coverage=dict(
            evaluations=max(res.ops, 1),
            distinct_nontrivial=max(nontrivial, 0),
            rule="call sequences create* ; use* ; drop generated by the FFI driver (request create/from_str/json, action json, status, header filtering with caller-built and library-built lists, body filter create/filter*/close|drop with payloads 0 B..1 MB and capacity != length outputs, buffers incl. duplicate/clone, logging, strings, documented-null patterns, hostile C strings, trusted proxies / logger as accounted immortals); evaluations = individual checked API results (value oracle against the native API), distinct_nontrivial = executed scenarios (distinct PRNG seeds by construction), each run under the engines listed in 'engines'",
            samples=res.samples or [dict(note="no scenario summary available")],
            engines=res.engines,
            inconclusive=inconclusive,
            exhaustive=False,
        ),
        assumptions=["Miri / ASan / valgrind / the audit allocator as memory oracles", "Stacked-Borrows Miri runs avoid CSS selectors (servo_arc, third-party, is rejected by Stacked Borrows); Tree-Borrows runs include them (thorough)", "wasm bindings not covered"],
        wall_s=time.time() - started,
        violations=len(res.violations),
    )
    os.makedirs(os.path.join(VERIF, "evidence"), exist_ok=True)
    epath = os.path.join(VERIF, "evidence", f"{prop}.json")
    if prop == "C07" and os.environ.get("C07_MERGE") == "1" and os.path.exists(epath):
        # the Rust monitor (rio-mon C07) wrote the evidence of this run a moment ago: add the FFI engines to it
        base = json.load(open(epath))
        cov = base["coverage"]
        cov["ffi_engines"] = res.engines
        cov["ffi_scenarios"] = res.scenarios
        cov["evaluations"] = cov.get("evaluations", 0) + res.ops
        cov["distinct_nontrivial"] = cov.get("distinct_nontrivial", 0) + res.scenarios
        cov["inconclusive"] = cov.get("inconclusive", []) + inconclusive
        cov["samples"] = cov.get("samples", []) + res.samples[:1]
        base["violations"] = base.get("violations", 0) + len(res.violations)
        base["wall_s"] = base.get("wall_s", 0) + (time.time() - started)
        evidence = base
    json.dump(evidence, open(epath, "w"), indent=1)
    print(f"{prop} {res.tier} seed={res.seed} scenarios={res.scenarios} checked_results={res.ops} violations={len(res.violations)} inconclusive={len(inconclusive)} wall={time.time() - started:.1f}s")
    for e in res.engines:
        print("  engine " + json.dumps(e))
    for i in inconclusive:
        print("  INCONCLUSIVE: " + i)
    return exit_code


def main():
    if len(sys.argv) >= 4 and sys.argv[2] == "--replay":
        doc = json.load(open(sys.argv[3]))
        r = doc.get("case", {}).get("ffi", doc.get("ffi", {}))
        engine = r.get("engine", "audit")
        args = ["--seed", str(r.get("seed", 1)), "--scenarios", str(r.get("scenarios", 100)), "--family", r.get("family", "all")]
        if r.get("only") is not None:
            args += ["--only", str(r["only"])]
        if r.get("shard"):
            args += ["--shard", r["shard"]]
        if r.get("max_payload"):
            args += ["--max-payload", str(r["max_payload"])]
        if engine == "miri":
            flags = "-Zmiri-disable-isolation" + (" -Zmiri-tree-borrows" if r.get("tree_borrows") and r.get("aliasing", True) else "") + ("" if r.get("aliasing", True) else " -Zmiri-disable-stacked-borrows")
            cmd = ["cargo", "+nightly", "miri", "run", "--offline", "--target-dir", os.path.join(VERIF, "target-miri"), "--"] + args + ["--max-payload", "600"] + ([] if r.get("selectors") else ["--no-selectors"])
            p = subprocess.run(cmd, env=dict(ENV, MIRIFLAGS=flags), cwd=DRIVER_DIR)
            rc = p.returncode
        else:
            binary, err = build("audit")
            if binary is None:
                print("build failed", err)
                sys.exit(2)
            rc = subprocess.run([binary] + args).returncode
        if rc == 0:
            print("replay: holds on this scenario with the current tree")
            sys.exit(0)
        print(f"VIOLATION property={sys.argv[1]} replay={sys.argv[3]}")
        sys.exit(1)

    prop, tier, seed = sys.argv[1], sys.argv[2], int(sys.argv[3]) if len(sys.argv) > 3 else 1
    started = time.time()
    res = Result(prop, tier, seed)
    binary, err = build("audit")
    if binary is None:
        print("HARNESS-ERROR: building the FFI driver failed (no verdict):\n" + err, file=sys.stderr)
        sys.exit(2)
    thorough = tier == "thorough"
    if prop == "C18":
        audit_phase(res, binary, "lifecycle", 50_000 if thorough else 3_000, seed, 1 << 20)
        audit_phase(res, binary, "immortal", 64, seed, 4096)
        miri_phase(res, "lifecycle", 16 if thorough else 2, 100 if thorough else 40, seed, tree_borrows=False, selectors=False)
        if thorough:
            miri_phase(res, "lifecycle", 8, 40, seed + 7, tree_borrows=True, selectors=False)
            miri_phase(res, "lifecycle", 8, 40, seed + 11, tree_borrows=False, selectors=True, aliasing=False)
            miri_phase(res, "immortal", 2, 6, seed, tree_borrows=False, selectors=False)
            asan_phase(res, 40_000, seed)
            valgrind_phase(res, 1_000, seed)
            cdriver_phase(res, 1_000, seed)
    else:  # C07: documented-null patterns and hostile strings must return normally
        audit_phase(res, binary, "nulls", 20_000 if thorough else 2_000, seed, 4096)
        miri_phase(res, "nulls", 8 if thorough else 1, 40 if thorough else 20, seed, tree_borrows=False, selectors=False)
    sys.exit(finish(res, started))


if __name__ == "__main__":
    main()
