#!/bin/bash
# Shared by the properties whose statement includes "never panics" (C16, C07): run the monitor in the shipping
# (release) profile, then again built with integer-overflow checks, and merge the second run's summary into the
# evidence of the first.   usage: ovf.sh <Cxx> <quick|thorough> <seed> [--second-only]
# The second run uses another PRNG stream (seed + 7919) so that its random inputs differ from the first run's;
# OVF_SCALE (percent, default 100) is handed to monitors that support a reduced budget (C07).
ID="$1"; MODE="$2"; SEED="${3:-1}"; ONLY="${4:-}"
DIR="$(cd "$(dirname "$0")/../.." && pwd)"
export VERIF_DIR="$DIR" PUBLISH_SKIP_BUILD=1 CARGO_NET_OFFLINE=true
. "$DIR/tools/lib.sh"
if [ "$ONLY" = "--second-only" ]; then A=0; else
"$DIR/target/release/rio-mon" "$ID" --tier "$MODE" --seed "$SEED" --verif-dir "$DIR"; A=$?
fi
[ $A -eq 2 ] && exit 2
build_harness_ovf || exit 2
rm -f "$DIR/evidence/$ID.ovf.json"
echo "--- $ID again, monitors and library built with integer-overflow checks (-C overflow-checks=on) ---"
VERIF_ENGINE=overflow-checks VERIF_CASE_SCALE="${OVF_SCALE:-100}" "$DIR/target-ovf/release/rio-mon" "$ID" --tier "$MODE" --seed "$((SEED + 7919))" --verif-dir "$DIR"; B=$?
python3 - "$DIR/evidence/$ID.json" "$DIR/evidence/$ID.ovf.json" "$B" <<'PY'
import json, os, sys
main, ovf, rc = sys.argv[1], sys.argv[2], int(sys.argv[3])
try:
    ev = json.load(open(main))
except Exception:
    sys.exit(0)
entry = {"build": "release profile + -C overflow-checks=on (library and monitors)", "exit_code": rc, "seed": "primary seed + 7919", "budget_percent": int(os.environ.get("OVF_SCALE", "100"))}
if os.path.exists(ovf):
    o = json.load(open(ovf))
    cov = o.get("coverage", {})
    entry.update({"evaluations": cov.get("evaluations"), "distinct_nontrivial": cov.get("distinct_nontrivial"),
                  "violations": o.get("violations"), "library_panics": cov.get("library_panics_seen_by_this_monitor"),
                  "inconclusive": cov.get("inconclusive"), "wall_s": o.get("wall_s"), "counters": cov.get("counters")})
    ev["violations"] = (ev.get("violations") or 0) + (o.get("violations") or 0)
    os.remove(ovf)
else:
    entry["note"] = "the overflow-checked run wrote no evidence (harness error): not performed"
ev.setdefault("coverage", {}).setdefault("engines", {})["overflow_checked_build"] = entry
json.dump(ev, open(main, "w"), indent=2)
PY
if [ $A -eq 1 ] || [ $B -eq 1 ]; then exit 1; fi
if [ $A -ne 0 ]; then exit $A; fi
exit $B
