#!/usr/bin/env python3
"""Generates /verif/MANIFEST.json from the table below (single source of truth)."""
import json, os, subprocess, sys

VERIF = os.path.dirname(os.path.dirname(os.path.abspath(__file__)))

# id -> (technique, level text, level note, design ref)
CHECKS = {
 "C01": ("reference-model runtime monitor: flat trigger predicate vs Router::match_request over generated routers/requests (bounded-exhaustive atomic-rule pairs + random)",
         "Every generated (configuration, rule set, request) is matched by the real router (rules entering through their JSON form) and the multiset of returned ids is compared with a flat reference predicate written from the statement (per-trigger conjunction + any-host policy per scheme scope). All singletons and unordered pairs of a 77-rule atomic catalogue x 7 configurations x ~100 catalogue requests are enumerated; random routers of 1-30 rules are probed with per-rule witnesses and their single-trigger mutations. Held-on-what-was-observed.",
         "Trusts the regex, chrono and cidr crates as primitives of the reference predicate and the predicate itself (cross-checked by seeded breaks); request URLs are normalisation-stable (C09 owns normalisation); exclude_methods in {absent,true}.",
         "5/C01"),
 "C02": ("history monitor with executable live-set model + differential (incremental vs rebuilt router) + index-dump invariant hook",
         "Random op histories over insert/remove/batch_remove/apply_change_set/clone-then-mutate/cache are applied to the real router; after EVERY op the monitor checks len/get_route_by_id/remove return values against a live-set model, that the ids stored anywhere in the layered index (read through the verif hook) are exactly the live ids, that every probe request gets the same answer from the incremental router, a router rebuilt from the live rules and the flat C01 predicate, and that every earlier shared base router still gives its recorded answers. Failing histories are minimised by delta debugging. A quarter of the histories run over the 113 rule sets harvested from the repository's generated router test (raw JSON rules: differential relations only).",
         "Trusts the C01 reference predicate; id uniqueness among live rules is enforced by the generator (ops violating it are skipped and counted).",
         "5/C02"),
 "C03": ("differential runtime monitor: chunked vs single-chunk delivery through the real FilterBodyAction, exhaustive single cuts per body, failure minimisation + classification by an independent span scanner",
         "For every (body, filter list) the single-chunk output is compared byte for byte with the output for partitions of the body: every single cut offset, strides, all 2-cut partitions of small bodies, random k-cuts with empty chunks, over a hostile corpus and its mutations. A failing partition is minimised to a minimal cut set; it is a known finding only when a necessary cut lies inside a comment/doctype/CDATA/raw-text construct whose content contains markup-looking text (or which is unterminated) according to a scanner that is independent of the tokenizer (and agrees with it on that body); anything else is a violation.",
         "Bodies are valid UTF-8 (the property's domain); the independent scanner only decides which failures may be listed as known; failures on bodies where scanner and tokenizer disagree are reported as inconclusive.",
         "5/C03"),
 "C04": ("byte-conservation invariant monitor at the filter boundary with sentinel values; fault injection by input (invalid UTF-8 at every offset); error state and held bytes observed through hooks",
         "Filter values are private-use sentinels that cannot occur in the body, so conservation is decidable exactly: no chain => out == b; insert-only lists => out minus values == b; HTML replace => out minus values is b minus '<...>' spans (DP). Checked for arbitrary bytes x whole / byte-at-a-time / strides / every single cut / random cuts, with an invalid byte injected at every offset of every corpus document; the hooks report bytes held back and the error state after every call, which also gives the exact signature of the one known loss (held bytes dropped when the chain fails on a body that is not valid UTF-8). HTML filters carry absent / empty / different inner_value (a trace-only field that must never reach the body). Responses declared compressed for which no filter can be built must pass through byte for byte (compressed, truncated or not compressed at all).",
         "replace_text is outside the statement; compressed bodies are C14's subject; the replace oracle is checked for bodies <= 1500 bytes.",
         "5/C04"),
 "C08": ("history monitor with executable model (flat list scanned with the regex crate) on the real RegexTreeMap/UniqueRegexTreeMap; exhaustive insertion orders x removal subsets for small pattern sets; tree snapshots through the hook",
         "After every op of a history over insert/remove/retain/cache the real tree's find (for every haystack), len, is_empty, iter and get are compared with a flat list. For small pattern sets drawn from a 50-pattern rule-shaped catalogue all k! insertion orders x all 2^k removal subsets x {remove, retain} with re-insertion and interleaved cache calls are enumerated; random histories of <= 60 ops on top. The structural hook provides tree depth, shape transitions (split/collapse/re-split), cache states and the every-node-regex-compiles diagnostic.",
         "Trusts the regex crate as the matching engine of the oracle; patterns restricted to the rule shape (empty pattern excluded); an extended-shape class (parentheses inside character classes) is classified separately as a known finding.",
         "5/C08"),
 "C13": ("reference-fold runtime monitor; exhaustive enumeration of header lists x filter sequences (k<=3) + random longer cases, through FilterHeaderAction::filter and Action::filter_headers",
         "The five operations + unknown are folded by a reference written from the statement and compared with both real entry points for every header list of length <= 3 over {A,a,B}x{'',1,2} and every filter sequence of length k<=2 (quick) / k<=3 on reduced alphabets (thorough), plus random longer lists with real header names.",
         "Trusts serde_json (to build the Action); case-insensitive = str::to_lowercase for ASCII names; for names with non-ASCII cased letters either consistent reading (Unicode or ASCII-only folding) is accepted, but one reading for all operations of a sequence.",
         "5/C13"),
 "C16": ("runtime span-accounting monitor on the real tokenizer; bounded-exhaustive short strings + random/mutated inputs; non-termination decided on CPU time (suspect input replayed alone under RLIMIT_CPU)",
         "Every enumerated or generated byte string is tokenised by the real Tokenizer under an oracle that checks termination within |b|+1 tokens, non-empty spans, exact reconstruction of the input from raw spans + remainder, no panic, accessor success on valid UTF-8 and accessor non-interference (twin run). All strings up to length 7 (quick) / 8 (thorough) over a 15-symbol markup alphabet and all short suffixes after 20 context prefixes are enumerated completely; longer inputs (incl. random non-ASCII characters in every token position) are sampled; every fragment context of Tokenizer::new_fragment x allow_cdata on/off is enumerated to length 4 and sampled. Held-on-what-was-observed, not a proof.",
         "Trusts rustc/std and String::from_utf8 as the definition of valid UTF-8; inputs longer than the enumerated bounds are only sampled.",
         "5/C16"),
}

CHECKS.update({
 "C05": ("reference-fold runtime monitor: priority fold written from the statement vs Action::from_routes_rule + observable getters; exhaustive 2-rule lists on a reduced effect grid + random lists; model-free attribution invariants with per-rule sentinels",
         "Every generated rule list is folded by the real code and by a reference (ordering by rank/id, sampling skip/force, reset, stop, status chain with unconditional fallback, per-code guards of header/body filters, log chain, applied-rule set) and both are observed at 6 response codes through the proxy-order protocol and getter by getter. All 2-rule lists over a 486-variant reduced grid x 3 rank orders x sampling overrides are enumerated; random lists of 1-8 rules with rank ties on top. Sentinel values make attribution checkable without the model.",
         "Trusts the C13 header reference; exclusion flag in {absent,true}; sampling rates strictly inside (0,100) are random and excluded.",
         "5/C05"),
 "C06": ("round-trip runtime monitor (serde_json and the C JSON entry points) with behavioural observation before/after",
         "For actions produced by the real pipeline over the C05 effect grid the monitor checks ser(de(ser(a))) == ser(a), equality of the C05 observations at 6 codes before and after the round trip, single getters at every code, and the same strings through redirectionio_action_json_*; for requests from the C01 generator (plus marketing parameters, upper-case / non-ASCII URLs, IPv6, sub-second timestamps) it checks that the restored request matches the same rules raw and re-normalised, also through redirectionio_request_json_*. Further: actions from rules with hostile effect values (empty / NUL / control / non-ASCII / 2 KB strings, present-null-absent optional fields), the hand-off in the middle of an exchange (applied-rule bookkeeping), the legacy wire format of requests, absent optional request fields, field-by-field equality of the restored request, values whose edge whitespace only appears after substitution, the action built for the restored request, and the repository's fixture worlds.",
         "Trusts serde_json; the wasm bindings are not compiled on this target and are not claimed.",
         "5/C06"),
 "C11": ("constancy (metamorphic) runtime monitor: permutations of the matched list, permuted insertion orders, different update histories; reference order check",
         "For rule sets of 2-48 rules with many rank ties, case-variant ids and conflicting effects, the serialised action is compared across all k! permutations of the matched list (k<=6, 61 random ones otherwise), routers built with permuted insertion orders, remove+re-insert and two change-sets with a cache warm-up in between, and the order of the contributing rules is compared with (rank desc, id desc). A third of the cases give rules triggers the one request satisfies (several ip ranges of one rule, methods, header condition: the rule sits in several buckets), a router variant applies an update-only change-set over earlier versions of the rules, and routers of the C01 generator and of the repository's fixtures are rebuilt in shuffled order.",
         "Trusts serde_json serialisation as the observable and the C05 reference order; sampling disabled (precondition of the property).",
         "5/C11"),
 "C12": ("twin (metamorphic) runtime monitor: identical update history with and without cache calls; exhaustive (limit, level) on small trees; thread stress on the shared RwLock<LazyRegex>; cache states read through the hooks",
         "Two routers receive the same C02-style history, one of them with cache(n) calls sprinkled in (n in {None,0,1,2,3,5,8,10^6}); after every op match ids, Route::capture of every matched route and the canonicalised trace must be identical for every probe. For small pattern sets every (limit, level) call and a third of all call pairs are enumerated against the uncached twin and the linear scan; 21 raw pattern sets beyond the rule shape (top-level classes, counted repetitions, alternations, uncompilable and empty patterns, non-ASCII case folding) are enumerated for transparency only. A stress run matches on an Arc<Router> from 4 threads while clones sharing the routes are cached. The hooks show that uncached, partially cached and fully cached states were all observed.",
         "The twin is the same library code without cache calls (metamorphic relation); regex crate for the linear scan of the tree part.",
         "5/C12"),
 "C17": ("differential runtime monitor: trace_request / get_trace / TraceAction vs match_request / get_route / Action::from_routes_rule on the C01 workload",
         "For every generated (router, request) over all 7 layers and 64 flag combinations, with random effects, optional remove/re-insert churn and cache warm-up: set(routes in the trace) == set(matched routes), traced final route priority == get_route priority == maximal priority, get_trace route list == matched, and for tie-free matches the last TraceAction step is observationally equal (C05 protocol, 6 codes) to the live action. The same on the repository's 113 fixture worlds (plain, churned, cached) and on focused single-bucket worlds whose rules share date-time / header conditions.",
         "Sets, not multisets, as the statement says; trace internals are read through their serde serialisation.",
         "5/C17"),
})

CHECKS.update({
 "C09": ("metamorphic runtime monitor over the full 2^6 configuration cube x 4 marketing sets: self-match, separation, permutation, marketing parameters (+ Location forwarding), case swap, idempotence",
         "No reference normaliser: the rule side and the request side of the real library must agree with each other. For every configuration and generated URL (reserved/unreserved punctuation, spaces, quotes, '+', %xx incl. invalid UTF-8, raw non-ASCII, characters the URI parser rejects; repeated keys, empty values, keys without '=', '&&', trailing '&', '?' alone) the monitor checks M1 self-match, M2 separation, M3 parameter permutation, M4 marketing parameters ignored and forwarded to the target iff configured, M5 ASCII case swap under the case flag, M6 idempotence (base URL, every variant, legacy wire format, Location after two re-normalisations), M1' the same literal rule declaring an unused marker answers identically, M7 forwarding of skipped marketing parameters to a catch-all target whose '?' comes from the captured text; every relation of a case is evaluated even after one failed. Failures are known findings only for three exact signatures computed in the harness (normalisation skipped + non-canonical request; rule query containing a configured marketing key; sort-before-lowercase).",
         "The http crate's URI parser and a harness-side form decoder/canonical query are used only for generation and for the known-finding signatures.",
         "5/C09"),
 "C10": ("generator-knows-the-answer runtime monitor: templates instantiated with accepted / unambiguously rejected strings; expected substitutions computed by an independent longest-name-first substituter and transformer model",
         "Templates over path, query, host and match_regex headers with 1-4 markers whose names are prefixes of one another and 8 typed expressions are instantiated; the rule must match iff every instantiation is accepted, and Location, Action::get_target, the header-filter value and the text/HTML body-filter values must equal the template with every reference replaced by the transformer chain applied to the captured string (marker transformers, then variable transformers; explicit variables of kinds marker / request header with default / host / method / scheme / path in shuffled declaration order).",
         "std case mapping and the heck crate as transformer primitives; captured values never contain '@'; slice offsets on character boundaries with from <= to (other chains are discarded by the generator).",
         "5/C10"),
})

CHECKS.update({
 "C14": ("differential runtime monitor: compressed delivery (arbitrary cuts of the compressed stream) vs plain delivery, output decoded by an independent decoder instance that must reach end-of-stream",
         "For bodies from 0 B to 250 KB, gzip / deflate / br streams produced with several encoder settings are cut at every single offset (small streams), by strides and at random (with empty chunks) and fed to the real chain; the concatenated output must be a complete valid stream (independent flate2 / brotli decoder, gzip CRC and trailing bytes checked) whose decompression equals the filtered plain body; header values in any letter case; unsupported encodings must create no chain and leave the body untouched.",
         "flate2 / brotli crates as independent encoder and decoder instances; the plain-body output of the same library is the reference (C03 owns plain chunk invariance); bodies avoid the C03 known class.",
         "5/C14"),
 "C15": ("DOM reference-model runtime monitor: generated trees with known source text, reference edit on the tree, byte comparison with the real filter output",
         "The generator builds the document as a tree (so the expected output is known without parsing): skeleton + planted unique path chain of depth 1-4 + filler with void/self-closing elements, all attribute quoting styles, entities, multi-byte text, comments, scripts with tag-like text, upper-case tags, repeated sibling replace targets. Lists of 1-3 filters (3 actions x selector absent/empty/tag/[attr]/[attr=v]/tag[attr] x path prefixes) with generated value subtrees are applied by a reference edit on the tree; its serialisation must equal the output byte for byte.",
         "Selector grammar restricted as described; a path running through an element replaced by an earlier filter is outside the statement and not generated; single-chunk delivery.",
         "5/C15"),
})

CHECKS.update({
 "C19": ("differential runtime monitor: project (Arc<Router> + change-set) vs standalone analyses in sorted and permuted rule order; reported responses vs the live pipeline driven in proxy order; redirect chains vs an independent follower",
         "For generated base rule sets, change-sets, examples, hop limits and project domains, the unit-ids, test-examples, explain and impact (add/update/delete, with and without redirect analysis) analyses computed from the existing router plus the change-set are compared (canonicalised) with the same analyses computed from scratch on the resulting rule list, in two rule orders; every reported response (status, headers, body, log decision) is compared with the live pipeline driven by the harness through the public API in proxy order, and every redirect chain with an independent follower (hops, Loop exactly when a (URL, method) repeats, TooManyHops, hops <= max_hops + 1). Filters carry unit ids / target hashes in all shapes, examples include ones the request builder rejects, configurations include the case policies.",
         "Rules without sampling; <= 10 failing rules per analysis; trace node counts / empty buckets are not compared (bookkeeping the statement does not speak of), only the traced route ids; url crate for joining redirect targets.",
         "5/C19"),
})

CHECKS.update({
 "C18": ("FFI call-sequence driver with value oracle under memory monitors: auditing global allocator (layout of every dealloc/realloc, unknown frees, leak-by-repetition), Miri, and in the thorough tier ASan+LSan, valgrind memcheck and a C client under clang ASan/UBSan",
         "Generated call sequences create* ; use* ; drop over requests, actions, header lists (caller-built and library-built, released node by node and string by string as the C modules do), body filters (create / filter* / close | drop), buffers (incl. duplicate/clone and outputs whose capacity differs from their length), returned strings, logging and the accounted immortals follow the ownership protocol of the nginx/apache modules. Every result is compared with the native API. The same driver runs under an auditing allocator that checks every deallocation layout and decides leaks by repetition, under Miri (Stacked Borrows; in the thorough tier also Tree Borrows, and the scenarios with CSS selectors with the aliasing model switched off) and, thorough, under ASan/LSan, valgrind and as a real C program linked against libredirectionio.a.",
         "Miri / ASan / valgrind / the audit allocator as memory oracles; runs under an aliasing model avoid CSS selectors (third-party servo_arc 0.4.3 is rejected by both Stacked and Tree Borrows; those scenarios run under Miri without aliasing model: use-after-free, double free, invalid deallocation, leaks, uninitialised reads still checked); wasm bindings not covered.",
         "5/C18"),
})

EXTRA_ENGINES = [
    {"name": "ffi-driver", "path": "/verif/ffi-driver", "serves_properties": ["C18", "C07"], "kind_free_text": "Rust FFI call-sequence driver (extern declarations of the C surface) run under the audit allocator, Miri, ASan/LSan and valgrind by tools/engines/c18.py"},
    {"name": "rio-mon (overflow-checked build)", "path": "/verif/harness", "serves_properties": ["C07", "C16"], "kind_free_text": "the same monitors and the library built with RUSTFLAGS=-C overflow-checks=on in the release profile (target-ovf), run by tools/engines/ovf.sh after the primary run; its summary is merged into the evidence under coverage.engines.overflow_checked_build"},
    {"name": "cdriver", "path": "/verif/cdriver", "serves_properties": ["C18"], "kind_free_text": "C client compiled with clang -fsanitize=address,undefined against libredirectionio.a (thorough tier)"},
]

CHECKS.update({
 "C07": ("panic / abort runtime monitor: catch_unwind + recording panic hook around every public entry point inside worker subprocesses (exit status observes aborts and stack overflows, BEGIN/END attribution, confirmation alone, wall-clock watchdog => inconclusive); FFI null patterns in the FFI driver under the audit allocator and Miri",
         "Grammar-generated hostile inputs per entry-point family (rule JSON with hostile marker regexes / transformer options / header kinds / ip, date, time, weekday garbage / examples with bad urls, ips, dates / mailto:, //host, relative targets; matching rules with multi-byte captures and hostile transformer chains; requests, logs with hostile Forwarded headers; body filters on arbitrary bytes x chunking x valid, truncated and corrupted gzip/deflate/br; the four analyses in both entry-point families through their JSON inputs; Buffer methods; deep / long documents on a 256 KiB stack) plus byte-level mutation of serialised rule JSON drive the real entry points; every panic (source location + message) and every process death is a violation unless it matches a listed known finding. The documented-null patterns and hostile C strings of every extern C function run in the FFI driver (a panic there aborts the process and is observed as such).",
         "Release profile only (the shipping profile; the dev-profile recursion depth F10 is not exercised); termination is bounded by logical step bounds owned by C16 (tokens) and C19 (hops) plus a wall-clock watchdog whose firing is inconclusive.",
         "5/C07"),
})


# additions of the round-6 / round-7 sessions: (technique suffix, level text suffix, level note replacement or None)
APPEND = {
 "C03": ("", " Filter targets include raw-text elements (style, script, noscript); a chunk boundary inside a CDATA section counts as the known finding only when it falls inside the opener `<![CDATA[` itself (after the opener the unchanged library holds the section back as text). One token of 100 KB on the filter's path (huge attribute value, text holding a literal '<') is delivered in 4-70 KB chunks; two documents one after the other are part of the corpus.", None),
 "C04": ("; large target elements with the answer known by construction", " Target elements of 0.3-2.5 MB under replace / selector-guarded append and prepend (buffered) and plain append (streamed), delivered whole and in 16 KiB / 64 KiB / 1 MB chunks, are compared byte for byte with the input carrying the one edit. Text-only chains on plain bodies wrongly declared gzip / deflate must pass the body through (known finding C04-F4D: header bytes consumed by the decoder in earlier, smaller chunks are dropped).", None),
 "C07": ("; the panic monitor is run a second time with library and monitors built with integer-overflow checks (-C overflow-checks=on)", " The same monitor is then run on another PRNG stream from a second build of library and monitors with rustc's integer-overflow checks switched on (30 % of the budget in the quick tier, all of it in the thorough tier): an arithmetic overflow that wraps silently in the shipping profile panics there.",
         "Shipping (release) profile plus a release build with integer-overflow checks; the dev-profile recursion depth F10 is not exercised; termination is bounded by logical step bounds owned by C16 (tokens) and C19 (hops) plus a wall-clock watchdog whose firing is inconclusive."),
 "C10": (" Round 7 added 21-48 rules of few ranks with ids of mixed shapes handed over in shuffled orders, and captured texts that spell marker references.", " Marker expressions include top-level alternations (of groups and of bare branches); the HTML body filter's second value (inner_value, explicit or defaulted) is read from the serialised action and must carry the same substitutions. Another request (same URL and host, other header values) may be served by the same router first; captured values may contain '$' followed by a word character.", None),
 "C11": ("", " Histories include single-rule replacement (an earlier version with several methods, remove(id), insert), emptying the whole router (one by one or in one batch) and refilling it, and pattern rules with upper-case literal text under the case policy. Rules may carry time-of-day / weekday triggers; a change-set concerning none of the rules followed by single removals and re-insertions is one of the histories.", None),
 "C12": ("", " A legal but heavy marker expression (compiled program of a few MiB) is looked up before and after warm-up. ASCII-only patterns with Perl classes are looked up with non-ASCII text.", None),
 "C13": ("; actions merged from 2-4 rules vs the concatenation of their filter lists in application order", " Actions built by Action::from_routes_rule from 2-4 rules with distinct ranks (handed over in scrambled order) must filter like the concatenation of the rules' filter lists in application order.", None),
 "C14": ("; gzip producers that write several members and optional header fields", " gzip streams made of several members (RFC 1952 section 2.2, incl. an empty last member) and with FNAME / FCOMMENT / FEXTRA fields are part of the workload (this found C14-MULTIMEMBER, repaired in ae2381f); the output is decoded with a multi-member decoder that rejects trailing garbage. An HTML filter in front of replace_text and zlib streams announcing a window below 32 KiB (when the body fits) are part of the workload.", None),
 "C15": ("", " Quoted attribute values containing '>' and legacy inline scripts with a nested script element (script-data double-escaped state) whose strings name the chain element are generated next to the targets. Removal (replace by the empty value) and tab / LF / CRLF separators inside tags are generated.", None),
 "C16": ("; tags assembled part by part with an invalid byte in at most one part; second run with integer-overflow checks", " Tags are also assembled from a name and attributes known by construction with an invalid byte planted in at most one part: every other part must still be returned with the expected text (the accessor clause speaks of the bytes of that name / attribute). The whole monitor is run a second time from a build of library and monitors with rustc's integer-overflow checks switched on.", None),
 "C17": ("", " Rules carry deterministic sampling (none / 0 / 100) and requests an explicit sampling decision or none; a third of the routers have the marketing flag off (so configurations rewriting nothing occur) and requests include URLs that the router's own normalisation rewrites (marketing parameter, unsorted query, space, non-ASCII).", None),
 "C18": ("", " The three spellings of 'no trusted proxies configured' (NULL object, object created from NULL, from the empty list) must derive the same client address from the same peer and forwarding headers. The log line built through the C entry point is compared with Log::from_proxy on the same request, headers (repeated Location / Content-Type lines, empty values) and action.", None),
 "C19": ("", " One of the project hosts is an IP literal in a fifth of the absolute cases; rules combining an ip range with an excluded method list are generated. Trailing-slash variants of the chain paths are generated.", None),
 "C06": ("", " Request header values that JSON has to escape (quoted strings, backslashes, control characters) and empty values are part of the request workload.", None),
 "C09": ("", " One of the four marketing-parameter sets has a name that is not all lower case (hsCtaTracking).", None),
 "C01": ("", " Marker names that are strict prefixes of one another (n / nn, sub / subx) occur in path and host patterns.", None),
}

PENDING_REASON = "monitor under construction in this session; not claimed until its check is registered"

def main():
    props = [json.loads(l) for l in open(os.path.join(VERIF, "properties.jsonl"))]
    hooks_commits = []
    try:
        out = subprocess.check_output(["git", "-C", "/repo", "log", "--format=%H %s"], text=True)
        hooks_commits = [l.split()[0] for l in out.splitlines() if l.split(" ", 1)[1].startswith("verif:")]
    except Exception:
        pass
    checks = []
    na = []
    for p in props:
        pid = p["id"]
        if pid in CHECKS:
            tech, text, note, ref = CHECKS[pid]
            if pid in APPEND:
                t2, x2, n2 = APPEND[pid]
                tech, text = tech + t2, text + x2
                if n2:
                    note = n2
            checks.append({
                "property_id": pid,
                "quick_cmd": f"./check {pid} quick",
                "thorough_cmd": f"./check {pid} thorough",
                "evidence_file": f"/verif/evidence/{pid}.json",
                "replay_cmd_template": f"./check {pid} --replay {{path}}",
                "engine": "ffi-driver" if pid == "C18" else ("rio-mon + ffi-driver + rio-mon (overflow-checked build)" if pid == "C07" else ("rio-mon + rio-mon (overflow-checked build)" if pid == "C16" else "rio-mon")),
                "level_claimed": {"category": "exploration", "text": text, "design_ref": f"DESIGN.md section {ref}"},
                "level_note": note,
                "technique": tech,
            })
        else:
            na.append({"property_id": pid, "reason": NA.get(pid, PENDING_REASON)})
    manifest = {
        "version": 1,
        "setup_cmd": "./setup.sh",
        "hooks": {
            "guard": "cargo feature `verif` of the redirectionio crate (off by default)",
            "enable": "the harness crate depends on redirectionio { path = \"/repo\", features = [\"verif\"] }; every ./check rebuilds it from /repo's working tree",
            "baseline_off_cmd": "cd /repo && export PUBLISH_SKIP_BUILD=1 && (cargo nextest run --workspace --no-fail-fast --test-threads 8 --offline || cargo test --workspace --no-fail-fast --offline)",
            "source_commits": hooks_commits,
            "add_only": True,
        },
        "engines": ENGINES + EXTRA_ENGINES,
        "checks": checks,
        "notes": "Runtime monitoring of the real library code: reference-model, metamorphic and invariant monitors (rio-mon) plus memory monitors for the C surface. Verdicts are three-valued: VIOLATION (exit 1), held on what was observed (exit 0), inconclusive (listed in evidence, exit 0 without claiming coverage). Known findings are listed in /verif/known_findings.json.",
        "not_applicable": na,
    }
    json.dump(manifest, open(os.path.join(VERIF, "MANIFEST.json"), "w"), indent=1)
    print(f"MANIFEST.json: {len(checks)} checks, {len(na)} not_applicable")

NA = {}
ENGINES = [
    {"name": "rio-mon", "path": "/verif/harness", "serves_properties": sorted(CHECKS.keys()),
     "kind_free_text": "Rust monitors driving the real library (path dependency on /repo with the verif feature): generators, reference models, differential/metamorphic oracles, event accounting, evidence writer"},
]

if __name__ == "__main__":
    main()
