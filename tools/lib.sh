# shared shell helpers (sourced)

ensure_lock() {
    # the repository's lock file is untracked but present in the sandbox; fall back to the committed copy
    if [ -f /repo/Cargo.lock ]; then
        if ! [ -f "$VERIF_DIR/harness/Cargo.lock" ]; then
            cp /repo/Cargo.lock "$VERIF_DIR/harness/Cargo.lock"
        fi
    elif ! [ -f "$VERIF_DIR/harness/Cargo.lock" ]; then
        cp "$VERIF_DIR/harness/Cargo.lock.fallback" "$VERIF_DIR/harness/Cargo.lock"
    fi
}

# Rebuild the monitors against /repo's *current working tree* (cargo fingerprints the path dependency).
build_harness() {
    ensure_lock
    mkdir -p "$VERIF_DIR/target"
    local log="$VERIF_DIR/target/build.$$.log"
    (
        flock 9
        cargo build --release --offline --manifest-path "$VERIF_DIR/harness/Cargo.toml" --target-dir "$VERIF_DIR/target" >"$log" 2>&1
    ) 9>"$VERIF_DIR/target/.build.lock"
    local rc=$?
    if [ $rc -ne 0 ]; then
        echo "HARNESS-ERROR: building the monitors against /repo failed (no verdict):" >&2
        grep -E "^(error|warning: unused)" -A8 "$log" | head -60 >&2
        rm -f "$log"
        return 2
    fi
    rm -f "$log"
    return 0
}

# Second build of the same monitors: release profile plus integer-overflow checks (rustc's built-in arithmetic
# sanitizer: an overflowing +, -, *, <<, negation or cast-free index computation panics instead of wrapping).
build_harness_ovf() {
    ensure_lock
    mkdir -p "$VERIF_DIR/target-ovf"
    local log="$VERIF_DIR/target-ovf/build.$$.log"
    (
        flock 9
        RUSTFLAGS="-C overflow-checks=on" cargo build --release --offline --manifest-path "$VERIF_DIR/harness/Cargo.toml" --target-dir "$VERIF_DIR/target-ovf" >"$log" 2>&1
    ) 9>"$VERIF_DIR/target-ovf/.build.lock"
    local rc=$?
    if [ $rc -ne 0 ]; then
        echo "HARNESS-ERROR: building the overflow-checked monitors against /repo failed (no verdict):" >&2
        grep -E "^(error|warning: unused)" -A8 "$log" | head -60 >&2
        rm -f "$log"
        return 2
    fi
    rm -f "$log"
    return 0
}
