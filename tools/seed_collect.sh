#!/bin/bash
# Collect the deliverables of a seeding sub-agent, confirm them independently, remove its worktree.
#   tools/seed_collect.sh <property id> <worktree suffix>      e.g. tools/seed_collect.sh C05 c   (worktree /tmp/seed/C05c)
# Every out/<k>/ becomes seeded/<id>-<next n>/ ; a change that does not verify is moved to seeded/rejected/.
set -u
V="$(cd "$(dirname "$0")/.." && pwd)"
ID="$1"; SUF="$2"; WT="/tmp/seed/${ID}${SUF}"
[ -d "$WT/out" ] || { echo "$ID: no out/ in $WT"; exit 1; }
for K in $(ls "$WT/out" | sort); do
    [ -f "$WT/out/$K/patch.diff" ] || continue
    N=1; while [ -e "$V/seeded/$ID-$N" ]; do N=$((N+1)); done
    D="$V/seeded/$ID-$N"; mkdir -p "$D"
    cp "$WT/out/$K/patch.diff" "$WT/out/$K/demo.rs" "$WT/out/$K/meta.json" "$D/" 2>/dev/null
    # identical to an existing seed?
    DUP=""
    for O in "$V"/seeded/$ID-*/; do
        [ "$O" = "$D/" ] && continue
        if diff -q <(grep '^[+-]' "$O/patch.diff" | grep -v '^[+-][+-]') <(grep '^[+-]' "$D/patch.diff" | grep -v '^[+-][+-]') >/dev/null 2>&1; then DUP="$O"; fi
    done
    if [ -n "$DUP" ]; then echo "$ID-$N: duplicate of $(basename "$DUP"), dropped"; rm -rf "$D"; continue; fi
    R=$("$V/tools/seed_verify.sh" "$WT" "$D")
    echo "$ID-$N $R"
    if ! echo "$R" | grep -q '"ok":true'; then mkdir -p "$V/seeded/rejected"; rm -rf "$V/seeded/rejected/$ID-$N"; mv "$D" "$V/seeded/rejected/$ID-$N"; fi
done
git -C /repo worktree remove --force "$WT" 2>/dev/null; rm -rf "$WT"; git -C /repo worktree prune
