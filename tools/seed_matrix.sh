#!/bin/bash
# Sensitivity matrix: every seeded break against the quick check of its own property (and extra checks given
# in seeded/<id>/checks if present). Results go to seeded/RESULTS.jsonl (one line per (seed, check)).
# /repo is patched while this runs: do not run other checks concurrently.
set -u
cd "$(dirname "$0")/.." || exit 2
OUT=seeded/RESULTS.jsonl
: > "$OUT.tmp"
if [ $# -gt 0 ]; then LIST=""; for S in "$@"; do LIST="$LIST seeded/$S/"; done; else LIST=$(ls -d seeded/C*-*/); fi
for D in $LIST; do
    S=$(basename "$D")
    if grep -q '"status": "obsolete' "$D/meta.json" 2>/dev/null; then continue; fi
    P=${S%-*}
    CHECKS="$P"
    [ -f "$D/checks" ] && CHECKS="$CHECKS $(cat "$D/checks")"
    if ! git -C /repo apply --check "$D/patch.diff" 2>/dev/null; then
        tools/seed_rebase.sh "$D" >/dev/null 2>&1 || { echo "{\"seed\":\"$S\",\"error\":\"patch does not apply\"}" >> "$OUT.tmp"; continue; }
    fi
    tools/seed_run.sh "$D" $CHECKS | while read -r LINE; do
        C=$(echo "$LINE" | awk '{print $2}'); RC=$(echo "$LINE" | sed -n 's/.* rc=\([0-9]*\) .*/\1/p')
        MSG=$(echo "$LINE" | cut -d';' -f2- | cut -c1-240 | sed 's/\\/\\\\/g; s/"/\\"/g')
        echo "{\"seed\":\"$S\",\"check\":\"$C\",\"rc\":${RC:-2},\"detected\":$([ "${RC:-2}" = "1" ] && echo true || echo false),\"first_line\":\"$MSG\"}" >> "$OUT.tmp"
    done
done
if [ $# -gt 0 ] && [ -f "$OUT" ]; then
    # merge: replace the lines of the re-run seeds
    python3 - "$OUT" "$OUT.tmp" "$@" <<'PY'
import json, sys
out, tmp, seeds = sys.argv[1], sys.argv[2], set(sys.argv[3:])
keep = [l for l in open(out) if json.loads(l).get("seed") not in seeds]
new = list(open(tmp))
rows = sorted(keep + new, key=lambda l: (json.loads(l).get("seed"), json.loads(l).get("check", "")))
open(out, "w").writelines(rows)
PY
    rm -f "$OUT.tmp"
else
    mv "$OUT.tmp" "$OUT"
fi
echo "matrix written to $OUT"
