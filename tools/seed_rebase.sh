#!/bin/bash
# Re-express a seeded patch against /repo's current HEAD (after fix: commits changed the context).
#   tools/seed_rebase.sh <seeded dir>     (uses a scratch worktree, removed afterwards)
set -u
D="$(cd "$1" && pwd)"
TOOLS="$(cd "$(dirname "$0")" && pwd)"
WT=/tmp/seed/rebase.$$
git -C /repo worktree add --detach "$WT" HEAD >/dev/null 2>&1 || exit 2
cp /repo/Cargo.lock "$WT/" 2>/dev/null
cd "$WT" || exit 2
if git apply --check "$D/patch.diff" 2>/dev/null; then
    echo "$(basename "$D"): applies cleanly to HEAD"; RC=0
elif git apply --3way "$D/patch.diff" >/dev/null 2>&1 && [ -z "$(git diff --name-only --diff-filter=U)" ]; then
    [ -f "$D/patch.orig.diff" ] || cp "$D/patch.diff" "$D/patch.orig.diff"
    git diff HEAD -- src > "$D/patch.diff"
    git reset -q --hard HEAD
    echo "$(basename "$D"): rebased with 3-way merge; re-verifying"
    "$TOOLS/seed_verify.sh" "$WT" "$D"; RC=$?
else
    echo "$(basename "$D"): CONFLICT, needs manual port"; RC=1
fi
cd /; git -C /repo worktree remove --force "$WT"
exit $RC
