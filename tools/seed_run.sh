#!/bin/bash
# Apply a seeded break to /repo, run the given checks (quick unless TIER=thorough), undo it.
#   tools/seed_run.sh <seeded dir> <Cxx> [<Cyy> ...]
# Prints "<seed> <check> rc=<rc>" per check. /repo is always restored.
set -u
D="$(cd "$1" && pwd)"; shift
TIER="${TIER:-quick}"
cd "$(dirname "$0")/.." || exit 2
if [ -n "$(git -C /repo status --porcelain --untracked-files=no)" ]; then echo "/repo not clean" >&2; exit 2; fi
git -C /repo apply "$D/patch.diff" || { echo "patch does not apply" >&2; exit 2; }
trap 'git -C /repo checkout -q -- .' EXIT
for ID in "$@"; do
    OUT=$(VERIF_SEED="${VERIF_SEED:-1}" ./check "$ID" "$TIER" 2>&1); RC=$?
    echo "$(basename "$D") $ID rc=$RC $(echo "$OUT" | grep -c '^VIOLATION') violation lines; $(echo "$OUT" | grep -m1 -A1 '^VIOLATION' | tail -1 | cut -c1-300)"
done
