#!/bin/bash
# Run the sensitivity matrix without touching /repo or /verif: a snapshot of /verif whose crates point at a
# scratch worktree of /repo (same commit), so that monitors can be developed in /verif meanwhile.
#   tools/seed_sandbox.sh create            snapshot /verif -> /tmp/vsnap, worktree of /repo HEAD -> /tmp/vrepo
#   tools/seed_sandbox.sh matrix [seeds..]  run tools/seed_matrix.sh inside the snapshot, copy RESULTS.jsonl rows back
#   tools/seed_sandbox.sh sync              re-copy /verif sources into the snapshot (keeps its target dirs)
#   tools/seed_sandbox.sh destroy           remove both (with their build output)
# Equivalent to "git -C /repo apply; ./check; git -C /repo checkout -- ." (tools/seed_run.sh), which stays the
# reference procedure; the snapshot only redirects the path dependency.
set -u
V="$(cd "$(dirname "$0")/.." && pwd)"
N="${SANDBOX_N:-}"; SNAP=/tmp/vsnap$N; WT=/tmp/vrepo$N
copy() {
    mkdir -p "$SNAP"
    rsync -a --delete --exclude '/target*' --exclude '/harness/target' --exclude '/ffi-driver/target' --exclude '/evidence' \
        --exclude '/replays' --exclude '/.git' --exclude '/coverage' "$V/" "$SNAP/"
    mkdir -p "$SNAP/evidence"
    sed -i "s#\"/repo\"#\"$WT\"#" "$SNAP/harness/Cargo.toml" "$SNAP/ffi-driver/Cargo.toml"
    sed -i "s#\"/repo/#\"$WT/#" "$SNAP/harness/src/fixtures.rs"
    sed -i "s#/repo#$WT#g" "$SNAP/tools/lib.sh" "$SNAP/tools/seed_run.sh" "$SNAP/tools/seed_matrix.sh" "$SNAP/tools/seed_rebase.sh" "$SNAP/tools/engines/c18.py"
}
case "${1:-}" in
create)
    git -C /repo worktree add --detach "$WT" HEAD >/dev/null 2>&1 || { echo "worktree exists?"; }
    cp /repo/Cargo.lock "$WT/" 2>/dev/null
    copy ;;
sync)
    git -C "$WT" checkout -q -- . ; git -C "$WT" checkout -q --detach "$(git -C /repo rev-parse HEAD)"
    copy ;;
matrix)
    shift
    ( cd "$SNAP" && VERIF_DIR="$SNAP" tools/seed_matrix.sh "$@" )
    python3 - "$V/seeded/RESULTS.jsonl" "$SNAP/seeded/RESULTS.jsonl" "$@" <<'PY'
import json, sys, os
out, new = sys.argv[1], sys.argv[2]
seeds = set(sys.argv[3:])
new_rows = [l for l in open(new) if l.strip()]
if seeds:
    new_rows = [l for l in new_rows if json.loads(l).get("seed") in seeds]
new_seeds = {json.loads(l).get("seed") for l in new_rows}
keep = [l for l in open(out) if l.strip() and json.loads(l).get("seed") not in new_seeds] if os.path.exists(out) else []
rows = sorted(keep + new_rows, key=lambda l: (json.loads(l).get("seed"), json.loads(l).get("check", "")))
open(out, "w").writelines(rows)
print(f"{len(new_rows)} rows merged into {out}")
PY
    ;;
destroy)
    git -C /repo worktree remove --force "$WT" 2>/dev/null; rm -rf "$WT" "$SNAP"; git -C /repo worktree prune ;;
*) echo "usage: $0 create|sync|matrix [seeds]|destroy"; exit 2 ;;
esac
