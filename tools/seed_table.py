#!/usr/bin/env python3
"""Regenerates the sensitivity table of DESIGN.md (Appendix D) from seeded/RESULTS.jsonl and the meta files."""
import json, os, re
V = '/verif'
rows = {}
for line in open(os.path.join(V, 'seeded/RESULTS.jsonl')):
    r = json.loads(line)
    rows.setdefault(r['seed'], []).append(r)
out = ["| seeded break | what it changes | needs | checks (quick tier) |", "|---|---|---|---|"]
for d in sorted(os.listdir(os.path.join(V, 'seeded'))):
    mp = os.path.join(V, 'seeded', d, 'meta.json')
    if not os.path.exists(mp):
        continue
    m = json.load(open(mp))
    summary = re.sub(r'\s+', ' ', str(m.get('summary', '')))[:230]
    needs = re.sub(r'\s+', ' ', str(m.get('needs', '')))[:200]
    if str(m.get('status', '')).startswith('obsolete'):
        checks = 'obsolete: ' + m['status'][10:120]
    else:
        checks = ', '.join(f"{r.get('check','?')}: {'**caught**' if r.get('detected') else 'not caught'}" for r in rows.get(d, [])) or 'not run'
    out.append(f"| {d} | {summary.replace('|','/')} | {needs.replace('|','/')} | {checks} |")
# summary
total = own = other_only = missed = obsolete = 0
for d in sorted(os.listdir(os.path.join(V, 'seeded'))):
    mp = os.path.join(V, 'seeded', d, 'meta.json')
    if not os.path.exists(mp):
        continue
    m = json.load(open(mp))
    if str(m.get('status', '')).startswith('obsolete'):
        obsolete += 1
        continue
    total += 1
    prop = d.split('-')[0]
    rs = rows.get(d, [])
    if any(r.get('detected') and r.get('check') == prop for r in rs):
        own += 1
    elif any(r.get('detected') for r in rs):
        other_only += 1
    else:
        missed += 1
summary_line = (f"{total} live seeded breaks (7 rounds; {obsolete} obsolete): {own} caught by the quick check of their own property, "
                f"{other_only} caught only by the check of a related property (a history-dependent break written against a "
                f"stateless statement, or a slip in the decode stage written against a statement about plain bodies), {missed} not caught. Column 4 lists every check that was run against the break.")
out = [summary_line, ""] + out
p = os.path.join(V, 'DESIGN.md')
s = open(p).read()
block = '<!-- SEED-TABLE-BEGIN -->\n' + '\n'.join(out) + '\n<!-- SEED-TABLE-END -->'
s = re.sub(r'<!-- SEED-TABLE-BEGIN -->.*<!-- SEED-TABLE-END -->', lambda _m: block, s, flags=re.S)
open(p, 'w').write(s)
print(len(out) - 4, "rows;", summary_line)
