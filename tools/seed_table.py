#!/usr/bin/env python3
"""Regenerates the sensitivity table of DESIGN.md (Appendix D) from seeded/RESULTS.jsonl and the meta files."""
import json, os, re
V = '/verif'
rows = {}
for line in open(os.path.join(V, 'seeded/RESULTS.jsonl')):
    r = json.loads(line)
    rows.setdefault(r['seed'], []).append(r)
out = ["| seeded break | what it changes | needs | checks (quick tier) |", "|---|---|---|---|"]
for d in sorted(os.listdir(os.path.join(V, 'seeded'))):
    mp = os.path.join(V, 'seeded', d, 'meta.json')
    if not os.path.exists(mp):
        continue
    m = json.load(open(mp))
    summary = re.sub(r'\s+', ' ', str(m.get('summary', '')))[:230]
    needs = re.sub(r'\s+', ' ', str(m.get('needs', '')))[:200]
    if str(m.get('status', '')).startswith('obsolete'):
        checks = 'obsolete: ' + m['status'][10:120]
    else:
        checks = ', '.join(f"{r.get('check','?')}: {'**caught**' if r.get('detected') else 'not caught'}" for r in rows.get(d, [])) or 'not run'
    out.append(f"| {d} | {summary.replace('|','/')} | {needs.replace('|','/')} | {checks} |")
p = os.path.join(V, 'DESIGN.md')
s = open(p).read()
s = re.sub(r'<!-- SEED-TABLE-BEGIN -->.*<!-- SEED-TABLE-END -->', '<!-- SEED-TABLE-BEGIN -->\n' + '\n'.join(out) + '\n<!-- SEED-TABLE-END -->', s, flags=re.S)
open(p, 'w').write(s)
print(len(out) - 2, "rows")
