#!/bin/bash
# Independently confirm a seeded break inside a scratch worktree:
#   tools/seed_verify.sh <worktree> <dir with patch.diff + demo.rs>
# checks: patch applies, library compiles, the whole existing suite passes with the patch,
# demo fails with the patch and passes without. Prints a one-line JSON verdict.
set -u
WT="$1"; D="$2"
export PUBLISH_SKIP_BUILD=1 CARGO_NET_OFFLINE=true
cd "$WT" || exit 2
git checkout -q -- . ; rm -f tests/demo.rs
if ! git apply --check "$D/patch.diff" 2>/dev/null; then echo '{"ok":false,"why":"patch does not apply"}'; exit 1; fi
git apply "$D/patch.diff"
SUITE=$(cargo test --workspace --offline 2>&1 | grep -E "^test result" | awk '{p+=$4; f+=$6} END {print p" "f}')
cp "$D/demo.rs" tests/demo.rs
cargo test --offline --test demo >/tmp/seed_verify.$$.log 2>&1; WITH=$?
git apply -R "$D/patch.diff"
cargo test --offline --test demo >/tmp/seed_verify.$$.log 2>&1; WITHOUT=$?
rm -f tests/demo.rs /tmp/seed_verify.$$.log
git checkout -q -- .
PASSED=${SUITE% *}; FAILED=${SUITE#* }
OK=false
if [ "$FAILED" = "0" ] && [ "${PASSED:-0}" -ge 549 ] && [ $WITH -ne 0 ] && [ $WITHOUT -eq 0 ]; then OK=true; fi
echo "{\"ok\":$OK,\"suite_passed_with_patch\":${PASSED:-0},\"suite_failed_with_patch\":${FAILED:-0},\"demo_rc_with_patch\":$WITH,\"demo_rc_without_patch\":$WITHOUT}"
