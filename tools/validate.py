#!/usr/bin/env python3
"""Validate MANIFEST.json and evidence files against the schemas (uses the tooling venv's jsonschema)."""
import json, sys, glob
import jsonschema
ok = True
m = json.load(open('/verif/MANIFEST.json')); s = json.load(open('/root/.vp/MANIFEST.schema.json'))
try:
    jsonschema.validate(m, s); print("MANIFEST.json valid")
except Exception as e:
    ok = False; print("MANIFEST invalid:", e)
es = json.load(open('/root/.vp/EVIDENCE.schema.json'))
for f in sorted(glob.glob('/verif/evidence/*.json')):
    try:
        jsonschema.validate(json.load(open(f)), es); print(f, "valid")
    except Exception as e:
        ok = False; print(f, "INVALID:", str(e)[:300])
sys.exit(0 if ok else 1)
